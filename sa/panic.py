"""Panic audit (DESIGN section 3): enumerate every panic-capable site reachable from an entry point and discharge it by
T1 (zone / constant arithmetic), T2 (categorical: output failure, constant-only, clock) or T3 (reviewed table with a
machine-checked side condition). Anything else is undischarged = "cannot prove panic-free"."""
import json
import re
import os

from . import prim, zone
from .model import Operand

HERE = os.path.dirname(os.path.abspath(__file__))
TABLE = os.path.join(os.path.dirname(HERE), "tables", "panic_obligations.json")

UNWRAPS = ("unwrap", "expect", "unwrap_err", "expect_err", "unwrap_unchecked")
EXPLICIT = ("panic_fmt", "panic_display", "panic", "panic_explicit", "panic_nounwind", "begin_panic", "unreachable_display", "panic_str", "assert_failed", "assert_failed_inner", "unwrap_failed", "expect_failed", "panic_cold_explicit", "panic_cold_display")
SEQ_MUT_PANICKY = ("remove", "swap_remove", "insert", "split_off", "drain", "split_at", "split_at_mut", "copy_from_slice", "clone_from_slice", "swap", "rotate_left", "rotate_right", "chunks", "chunks_exact", "windows", "copy_within", "split_first_chunk", "as_chunks")
TIME_OPS = ("add", "sub", "add_assign", "sub_assign")


class Site:
    __slots__ = ("fn", "bb", "kind", "desc", "term", "key", "status", "how", "detail")

    def __init__(self, fn, bb, kind, desc, term):
        self.fn = fn
        self.bb = bb
        self.kind = kind          # assert:<k> | unwrap | explicit | index | seqop | refcell | timeop
        self.desc = desc
        self.term = term
        self.key = None
        self.status = None        # T1 | T2a | T2b | T2c | T3 | open
        self.how = None
        self.detail = ""


def classify_call(fn, b, t):
    """kind/desc of a panic-capable call terminator, or None"""
    n = t.j.get("callee_name")
    c = t.callee or ""
    inst = t.j.get("callee_inst") or c
    if n in UNWRAPS and (c.startswith("std::option::Option") or c.startswith("std::result::Result")):
        return "unwrap", "%s on %s" % (n, _short_ty(inst))
    if n in EXPLICIT and (c.startswith("std::rt::") or c.startswith("core::panicking") or c.startswith("std::panicking")):
        return "explicit", n
    if n in ("index", "index_mut") and ("std::ops::Index" in inst):
        return "index", _short_ty(inst)
    if n in SEQ_MUT_PANICKY and (c.startswith("std::vec::Vec") or c.startswith("core::slice::") or c.startswith("std::string::String") or c.startswith("core::str::")):
        return "seqop", "%s on %s" % (n, _short_ty(inst))
    if n in ("borrow", "borrow_mut", "replace", "swap", "take", "replace_with") and c.startswith("std::cell::RefCell"):
        return "refcell", n
    if n in TIME_OPS and ("std::time::SystemTime as std::ops::" in inst or "std::time::Duration as std::ops::" in inst or "std::time::Instant as std::ops::" in inst):
        return "timeop", _short_ty(inst)
    if c in ("std::io::_print", "std::io::_eprint"):
        return "output", n
    ext = external_panicky(c, inst)
    if ext is not None:
        return "extapi", ext
    # dependency conversions documented to panic on out-of-range input
    if n in ("from", "into") and "chrono::DateTime" in inst and "SystemTime" in inst:
        return "dep", "chrono DateTime from SystemTime"
    if n in ("timestamp", "timestamp_nanos", "with_ymd_and_hms", "ymd", "and_hms") and c.startswith("chrono::") and "Opt" not in c and n != "timestamp":
        return "dep", "chrono %s" % n
    return None


# Library entry points that are documented (or read in the pinned source) to panic on some input. The table is a
# deny-list reviewed against the complete list of external callees of the crate (tools/list_external_callees.py prints it);
# an API not listed here is either total, returns its failure as a value, or fails only on allocation (abort, not panic).
EXTERNAL_PANICKY = [
    # (callee prefix after generic stripping, name, what makes it panic)
    ("std::env::args", None, "std::env::args panics on an argument that is not valid Unicode (use args_os)"),
    ("std::env::vars", None, "std::env::vars panics on a variable that is not valid Unicode (use vars_os)"),
    ("core::fmt::rt::Argument", "from_usize", "a `{:width$}`/`{:.prec$}` argument above u16::MAX panics (\"Formatting argument out of range\")"),
    ("onig::Regex", "is_match", "onig's convenience matchers panic when the match fails (retry-limit-in-match over, stack limit)"),
    ("onig::Regex", "match_with_options", "panics when the match fails"),
    ("onig::Regex", "match_with_encoding", "panics when the match fails"),
    ("onig::Regex", "search_with_options", "panics when the search fails"),
    ("onig::Regex", "search_with_encoding", "panics when the search fails"),
    ("onig::Regex", "find", "panics when the search fails"),
    ("onig::Regex", "find_iter", "panics when the search fails"),
    ("onig::Regex", "captures", "panics when the search fails"),
    ("onig::Regex", "captures_iter", "panics when the search fails"),
    ("onig::Regex", "replace", "panics when the search fails"),
    ("onig::Regex", "replace_all", "panics when the search fails"),
    ("onig::Regex", "replacen", "panics when the search fails"),
    ("onig::Regex", "split", "panics when the search fails"),
    ("onig::Regex", "splitn", "panics when the search fails"),
    ("onig::Regex", "scan", "panics when the search fails"),
    ("core::num", "div_ceil", "division by zero"),
    ("core::num", "div_euclid", "division by zero / overflow"),
    ("core::num", "rem_euclid", "division by zero / overflow"),
    ("core::num", "pow", "overflow (debug)"),
    ("core::num", "abs", "overflow on MIN (debug)"),
    ("core::num", "next_power_of_two", "overflow (debug)"),
    ("core::num", "ilog", "zero / base < 2"), ("core::num", "ilog2", "zero"), ("core::num", "ilog10", "zero"),
    ("core::num", "isqrt", "negative"),
    ("std::iter::Iterator", "sum", "integer overflow with overflow checks on"),
    ("std::iter::Iterator", "product", "integer overflow with overflow checks on"),
    ("std::iter::Iterator", "step_by", "step 0"),
    ("std::time::Duration", "new", "carry from nanoseconds overflows the seconds"),
    ("std::time::Duration", "from_secs_f64", "negative, overflow or not finite"),
    ("std::time::Duration", "from_secs_f32", "negative, overflow or not finite"),
    ("std::time::Duration", "mul_f64", "negative, overflow or not finite"), ("std::time::Duration", "mul_f32", "negative, overflow or not finite"),
    ("std::time::Duration", "div_f64", "negative, overflow or not finite"), ("std::time::Duration", "div_f32", "negative, overflow or not finite"),
    ("std::time::Duration", "abs_diff", None),
    ("std::time::Instant", "duration_since", None),
    ("std::time::Instant", "elapsed", None),
    ("std::time::SystemTime", "elapsed", None),
    ("core::slice", "split_at", "mid > len"), ("core::slice", "split_at_mut", "mid > len"),
    ("core::slice", "copy_from_slice", "length mismatch"), ("core::slice", "clone_from_slice", "length mismatch"),
    ("core::slice", "chunks", "chunk size 0"), ("core::slice", "chunks_exact", "chunk size 0"), ("core::slice", "windows", "size 0"), ("core::slice", "rchunks", "chunk size 0"),
    ("core::slice", "swap", "index out of bounds"), ("core::slice", "rotate_left", "mid > len"), ("core::slice", "rotate_right", "k > len"),
    ("core::slice", "select_nth_unstable", "index out of bounds"), ("core::slice", "copy_within", "range out of bounds"),
    ("core::slice", "split_first_chunk", None),
    ("core::str", "split_at", "not a char boundary / past the end"), ("core::str", "split_at_mut", "not a char boundary"),
    ("core::str", "repeat", "capacity overflow"), ("std::str", "repeat", "capacity overflow"), ("std::slice", "repeat", "capacity overflow"),
    ("std::char::methods", "to_digit", "radix > 36"), ("std::char::methods", "is_digit", "radix > 36"), ("std::char::methods", "from_digit", "radix > 36"),
    ("core::num", "from_str_radix", "radix outside 2..=36"),
    ("std::vec::Vec", "with_capacity", "capacity overflow"), ("std::string::String", "with_capacity", "capacity overflow"),
    ("std::vec::Vec", "reserve", "capacity overflow"), ("std::vec::Vec", "reserve_exact", "capacity overflow"),
    ("std::collections::VecDeque", "swap", "index out of bounds"), ("std::collections::VecDeque", "insert", "index out of bounds"),
    ("std::cell::OnceCell", "get_or_init", "re-entrant initialisation"),
    ("std::cell::LazyCell", "force", "poisoned / re-entrant"),
    ("std::thread", "spawn", "the OS fails to create a thread"), ("std::thread::JoinHandle", "join", None),
    ("std::sync::Mutex", "lock", None),
    ("std::process::Child", "wait", None),
    ("clap::Command", "get_matches", "exits / panics on invalid UTF-8"), ("clap::Command", "get_matches_from", "exits / panics on invalid UTF-8"),
    ("clap::ArgMatches", "get_one", "panics when the id is unknown or the type differs from the argument's value parser"),
    ("clap::ArgMatches", "get_many", "panics when the id is unknown or the type differs"),
    ("clap::ArgMatches", "get_flag", "panics when the argument is not a flag"),
    ("clap::ArgMatches", "get_count", "panics when the argument is not a counter"),
    ("clap::ArgMatches", "contains_id", "panics (debug) when the id is unknown"),
    ("clap::ArgMatches", "indices_of", "panics (debug) when the id is unknown"),
    ("clap::ArgMatches", "value_source", "panics (debug) when the id is unknown"),
    ("clap::ArgMatches", "remove_one", "panics when the id is unknown or the type differs"),
    ("chrono::DateTime", "with_timezone", None),
    ("chrono::DateTime", "from_naive_utc_and_offset", None),
    ("chrono::TimeZone", "timestamp", "out of range"), ("chrono::TimeZone", "ymd", "out of range"), ("chrono::TimeZone", "from_utc_datetime", None),
    ("chrono::Local", "now", None),
    ("chrono::NaiveDate", "from_ymd", "out of range"), ("chrono::NaiveTime", "from_hms", "out of range"),
    ("chrono::DateTime", "format", "the returned DelayedFormat's Display fails on an invalid item, and to_string()/format!/write! unwrap that"),
]
# entries whose reason is None are total on this platform (documented no panic / saturating) and only listed to record the review
EXTERNAL_PANICKY = [e for e in EXTERNAL_PANICKY if e[2] is not None]


def strip_generics_path(c):
    out = []
    depth = 0
    i = 0
    while i < len(c):
        if depth == 0 and c.startswith("::<", i):
            depth = 1
            i += 3
            continue
        if depth > 0:
            if c[i] == "<":
                depth += 1
            elif c[i] == ">":
                depth -= 1
            i += 1
            continue
        out.append(c[i])
        i += 1
    return "".join(out)


def external_panicky(callee, inst):
    if not callee or callee.startswith("findutils::"):
        return None
    c = strip_generics_path(callee)
    for pre, name, why in EXTERNAL_PANICKY:
        if name is None:
            if c == pre:
                return "%s: %s" % (c, why)
        elif c == pre + "::" + name or (c.startswith(pre + "::") and c.endswith("::" + name)):
            return "%s: %s" % (c, why)
    return None


def _short_ty(s):
    s = s.replace("std::option::", "").replace("std::result::", "").replace("std::boxed::", "").replace("std::string::", "").replace("std::vec::", "")
    s = s.replace("findutils::find::matchers::", "").replace("findutils::xargs::", "").replace("std::ops::", "")
    return s[:110]


def enumerate_sites(prog, roots, crate=("findutils", "find", "xargs"), exclude_prefix=()):
    reach = prog.reachable_fns(roots)
    sites = []
    fns = []
    for path in sorted(reach):
        f = prog.fns[path]
        if f.crate not in crate or any(path.startswith(p) for p in exclude_prefix):
            continue
        fns.append(f)
        for b in sorted(f.reachable()):
            t = f.blocks[b].term
            if t.k == "assert":
                m = t.j["msg"]
                desc = m.get("k")
                if desc == "overflow":
                    desc = "overflow:%s" % m.get("op")
                sites.append(Site(f, b, "assert:" + m.get("k"), desc, t))
            elif t.k == "call":
                kc = classify_call(f, b, t)
                if kc is not None:
                    sites.append(Site(f, b, kc[0], kc[1], t))
    # keys without line numbers: fn | kind | desc | ordinal
    cnt = {}
    for s in sites:
        base = "%s|%s|%s" % (s.fn.path, s.kind, s.desc)
        n = cnt.get(base, 0)
        cnt[base] = n + 1
        s.key = base if n == 0 else "%s#%d" % (base, n)
    return sites, fns


# ------------------------------------------------------------------------------------------------------------
# T1: zone / constant arithmetic
# ------------------------------------------------------------------------------------------------------------

class ZoneCache:
    def __init__(self, prog, preconditions):
        self.prog = prog
        self.pre = preconditions
        self.cache = {}

    def get(self, fn):
        a = self.cache.get(fn.path)
        if a is None:
            pre = []
            for p in self.pre.get(fn.path, []):
                pre.append(_pre_to_constraint(fn, p))
            a = zone.Analysis(fn, self.prog, pre=[p for p in pre if p is not None])
            try:
                a.run()
            except RuntimeError as e:
                a.in_states = {}
                a.failed = str(e)
            self.cache[fn.path] = a
        return a


def _pre_to_constraint(fn, p):
    """{"lhs": ["local","index"], "lhs_c": 0, "rhs": ["len","args"], "rhs_c": -1}  ->  (a, ca, b, cb)"""
    def sym(x):
        if x[0] == "zero":
            return ("zero",)
        ls = fn.locals_named(x[1])
        ls = [l for l in ls if 1 <= l <= fn.arg_count]
        if not ls:
            return None
        return (x[0], ls[0])
    a, b = sym(p["lhs"]), sym(p["rhs"])
    if a is None or b is None:
        return None
    return (a, p.get("lhs_c", 0), b, p.get("rhs_c", 0))


def t1_assert(za, site):
    fn, b, t = site.fn, site.bb, site.term
    st = za.state_before_term(b)
    if st is None:
        return True, "unreachable in the abstract semantics"
    d, env = st
    m = t.j["msg"]
    k = m.get("k")
    if k == "bounds":
        idx = za.lin_of_operand(Operand(m["index"]), env)
        ln = za.lin_of_operand(Operand(m["len"]), env)
        if za.le(d, idx, ln, -1) and za.le(d, ("lin", 0, 0), idx):
            return True, "zone: %s < %s" % (za.describe(d, idx), za.describe(d, ln))
        return False, "index %s, length %s" % (za.describe(d, idx), za.describe(d, ln))
    if k == "overflow":
        op = m.get("op")
        oa, ob = Operand(m["a"]), Operand(m["b"])
        a = za.lin_of_operand(oa, env)
        b2 = za.lin_of_operand(ob, env)
        ty = za._op_ty(oa) or za._op_ty(ob)
        if op == "Add" and a is not None and b2 is not None and ty in zone.UNSIGNED:
            hi_a = d.m[a[1]][0] + a[2]
            hi_b = d.m[b2[1]][0] + b2[2]
            if hi_a + hi_b <= zone.WIDTH_MAX[ty]:
                return True, "zone: %s + %s <= %s::MAX" % (za.describe(d, a), za.describe(d, b2), ty)
            return False, "%s + %s may exceed %s::MAX" % (za.describe(d, a), za.describe(d, b2), ty)
        if op == "Sub" and a is not None and b2 is not None and ty in zone.UNSIGNED:
            if za.le(d, b2, a):
                return True, "zone: %s >= %s" % (za.describe(d, a), za.describe(d, b2))
            return False, "%s - %s may be negative" % (za.describe(d, a), za.describe(d, b2))
        if op in ("Add", "Sub") and a is not None and b2 is not None and ty in zone.SIGNED:
            bits = zone.SIGNED[ty]
            lo_a, hi_a = -d.m[0][a[1]] + a[2], d.m[a[1]][0] + a[2]
            lo_b, hi_b = -d.m[0][b2[1]] + b2[2], d.m[b2[1]][0] + b2[2]
            if op == "Add":
                lo, hi = lo_a + lo_b, hi_a + hi_b
            else:
                lo, hi = lo_a - hi_b, hi_a - lo_b
            if lo >= -(1 << (bits - 1)) and hi <= (1 << (bits - 1)) - 1:
                return True, "zone: result in [%s, %s]" % (lo, hi)
            return False, "signed %s may overflow: operands %s, %s" % (op, za.describe(d, a), za.describe(d, b2))
        if op in ("Div", "Rem"):
            vb = ob.const_value() if ob.kind == "const" else None
            if isinstance(vb, int) and vb not in (0, -1):
                return True, "constant divisor %s" % vb
        if op in ("Shl", "Shr"):
            vb = b2
            if vb is not None and vb[1] == 0 and ty is not None:
                bits = zone.UNSIGNED.get(ty) or zone.SIGNED.get(ty)
                if bits and 0 <= vb[2] < bits:
                    return True, "constant shift %s" % vb[2]
            if vb is not None and ty is not None:
                bits = zone.UNSIGNED.get(ty) or zone.SIGNED.get(ty)
                hi = d.m[vb[1]][0] + vb[2]
                lo = -d.m[0][vb[1]] + vb[2]
                if bits and lo >= 0 and hi < bits:
                    return True, "zone: shift in [%s, %s]" % (lo, hi)
        if op == "Mul":
            va = oa.const_value() if oa.kind == "const" else None
            vb = ob.const_value() if ob.kind == "const" else None
            if isinstance(va, int) and isinstance(vb, int):
                return True, "constant operands"
        return False, "%s of %s and %s" % (op, za.describe(d, a), za.describe(d, b2))
    if k in ("div_zero", "rem_zero"):
        # the divisor is operand b of the following bin statement; the assert's own operand is the dividend: find the condition
        cond = Operand(t.j["cond"])
        # cond = Eq(divisor, 0) computed in this block
        for s in reversed(fn.blocks[b].stmts):
            if s.lhs is not None and s.lhs.is_local() and cond.place is not None and s.lhs.local == cond.place.local and s.rv is not None and s.rv.k == "bin":
                dv = s.rv.ops[0]
                v = dv.const_value() if dv.kind == "const" else None
                if isinstance(v, int) and v != 0:
                    return True, "constant divisor %s" % v
                l = za.lin_of_operand(dv, env)
                if l is not None and (za.le(d, ("lin", 0, 1), l) or za.le(d, l, ("lin", 0, -1))):
                    return True, "zone: divisor %s is non-zero" % za.describe(d, l)
        return False, "divisor not shown non-zero"
    if k == "overflow_neg":
        # `-x` overflows only for x == MIN
        oa = Operand(m["a"])
        r = _ty_range(za._op_ty(oa))
        ia = interval(fn, prim.origin_of_operand(fn, oa), za, d)
        if r is not None and ia is not None and ia[0] > r[0]:
            return True, "interval: operand in [%s, %s], never the minimum of its type" % ia
        return False, "negation may overflow"
    return False, k


def _env_field_of(cf, local, hops=6):
    """the closure-environment field a local of the closure body is read from (`_8 = deref_copy (*_1).0`, through moves and
    PtrMetadata): its index, or None"""
    for _ in range(hops):
        ds = [d_ for d_ in prim.local_defs(cf).get(local, []) if d_[1] != "partial"]
        if len(ds) != 1 or ds[0][1] != "assign" or ds[0][2].rv is None:
            return None
        rv = ds[0][2].rv
        pl = rv.place if rv.place is not None else (rv.ops[0].place if rv.ops and rv.ops[0].place is not None else None)
        if pl is None:
            return None
        if pl.local == 1:
            fs = [e for e in pl.proj if isinstance(e, dict) and "f" in e]
            if len(fs) == 1 and all(e == "*" or (isinstance(e, dict) and "f" in e) for e in pl.proj):
                return fs[0]["f"]
            return None
        if any(e != "*" for e in pl.proj):
            return None
        local = pl.local
    return None


def t1_closure_bounds(prog, zc, site):
    """`slice[i]` inside a closure where both the slice and the index are captured variables (`.ok_or_else(|| format!("..{}",
    args[i]))`): the captured values cannot change while the closure exists (shared borrow, or a copy), so the bounds check
    holds if `i < len(slice)` holds wherever the closure is built. Checked in the zone state of every construction site."""
    cf, t = site.fn, site.term
    m = t.j.get("msg", {})
    if not cf.closure_of or m.get("k") != "bounds":
        return False, ""
    io, lo = Operand(m["index"]), Operand(m["len"])
    if io.place is None or lo.place is None or not io.place.is_local() or not lo.place.is_local():
        return False, ""
    ki, kl = _env_field_of(cf, io.place.local), _env_field_of(cf, lo.place.local)
    if ki is None or kl is None or ki == kl:
        return False, ""
    n_sites = 0
    for P in prog.fns.values():
        for b in P.reachable():
            for st_ in P.blocks[b].stmts:
                if st_.rv is None or st_.rv.k != "agg" or st_.rv.j.get("ak") not in ("closure", "coroutine") or st_.rv.j.get("def") != cf.path:
                    continue
                n_sites += 1
                if max(ki, kl) >= len(st_.rv.ops):
                    return False, ""
                za = zc.get(P)
                state = za.state_before_term(b)
                if state is None:
                    continue            # unreachable in the abstract semantics
                d, env = state

                def captured_place(op):
                    # the captured operand: a copy of the variable, or a reference made just before
                    pl = op.place
                    if pl is None:
                        return None
                    if pl.is_local() and pl.local not in za.var_of_local and pl.local not in za.len_of_local:
                        ds = [d_ for d_ in prim.local_defs(P).get(pl.local, []) if d_[1] != "partial"]
                        if len(ds) == 1 and ds[0][1] == "assign" and ds[0][2].rv is not None and ds[0][2].rv.k == "ref" and ds[0][2].rv.j.get("bk") == "shared" and ds[0][0] == b:
                            return ds[0][2].rv.place
                        return None
                    return pl
                pi, ps = captured_place(st_.rv.ops[ki]), captured_place(st_.rv.ops[kl])
                if pi is None or ps is None or not pi.is_local() or pi.local not in za.var_of_local:
                    return False, "captured index/slice not tracked at %s" % prim.site(P, b)
                bl = za.base_local(ps, env)
                if bl is None:
                    return False, "captured slice not tracked at %s" % prim.site(P, b)
                idx = ("lin", za.var_of_local[pi.local], 0)
                ln = ("lin", za.len_of_local[bl], 0)
                if not (za.le(d, idx, ln, -1) and za.le(d, ("lin", 0, 0), idx)):
                    return False, "at %s the captured index %s is not shown below the captured length %s" % (prim.site(P, b), za.describe(d, idx), za.describe(d, ln))
    if n_sites == 0:
        return False, ""
    return True, "zone of the %d site(s) that build the closure: the captured index is below the length of the captured slice there, and neither can change while the closure exists" % n_sites


def t1_index(za, site):
    """Index::index on slices / Vec with usize or range operands (str ranges are handled by the S1 rule)"""
    fn, b, t = site.fn, site.bb, site.term
    st = za.state_before_term(b)
    if st is None:
        return True, "unreachable in the abstract semantics"
    d, env = st
    inst = t.j.get("callee_inst") or ""
    if "RangeFull" in inst:
        return True, "full range"
    bl = za.base_local(t.args[0], env)
    if bl is None:
        return False, "receiver is not a tracked sequence"
    ln = ("lin", za.len_of_local[bl], 0)
    idx_op = t.args[1]
    f = za.lin_of_operand(idx_op, env)
    if f is not None:
        if za.le(d, f, ln, -1):
            return True, "zone: %s < %s" % (za.describe(d, f), za.describe(d, ln))
        return False, "index %s vs %s" % (za.describe(d, f), za.describe(d, ln))
    e = env.get(idx_op.place.local) if (idx_op.place is not None and idx_op.place.is_local()) else None
    if e is not None and e[0] == "range":
        kind, forms = e[1], e[2]
        if kind.startswith("RangeFrom") and len(forms) == 1 and forms[0] is not None:
            if za.le(d, forms[0], ln):
                return True, "zone: start %s <= %s" % (za.describe(d, forms[0]), za.describe(d, ln))
            return False, "range start %s vs %s" % (za.describe(d, forms[0]), za.describe(d, ln))
        if kind.startswith("RangeTo") and len(forms) == 1 and forms[0] is not None:
            if za.le(d, forms[0], ln):
                return True, "zone: end %s <= %s" % (za.describe(d, forms[0]), za.describe(d, ln))
            return False, "range end %s vs %s" % (za.describe(d, forms[0]), za.describe(d, ln))
        if kind.startswith("Range") and len(forms) == 2 and forms[0] is not None and forms[1] is not None:
            if za.le(d, forms[0], forms[1]) and za.le(d, forms[1], ln):
                return True, "zone: %s <= %s <= %s" % (za.describe(d, forms[0]), za.describe(d, forms[1]), za.describe(d, ln))
            return False, "range %s..%s vs %s" % (za.describe(d, forms[0]), za.describe(d, forms[1]), za.describe(d, ln))
        if kind.startswith("RangeFull"):
            return True, "full range"
    return False, "index operand not a linear form"


def t1_seqop(za, site):
    """split_at / split_at_mut / split_off (mid <= len) and remove / swap_remove (index < len) on tracked sequences"""
    fn, b, t = site.fn, site.bb, site.term
    st = za.state_before_term(b)
    if st is None:
        return True, "unreachable in the abstract semantics"
    d, env = st
    n = t.j.get("callee_name")
    if n not in ("split_at", "split_at_mut", "split_off", "remove", "swap_remove", "truncate") or len(t.args) < 2:
        return False, ""
    bl = za.base_local(t.args[0], env)
    if bl is None:
        e = env.get(t.args[0].place.local) if (t.args[0].place is not None and t.args[0].place.is_local()) else None
        if e is not None and e[0] == "alias_mut":
            bl = za.base_local(e[1], env)
    if bl is None:
        return False, "receiver is not a tracked sequence"
    ln = ("lin", za.len_of_local[bl], 0)
    f = za.lin_of_operand(t.args[1], env)
    if f is None:
        return False, "operand not a linear form"
    slack = 0 if n in ("split_at", "split_at_mut", "split_off", "truncate") else -1
    if za.le(d, f, ln, slack):
        return True, "zone: %s %s %s" % (za.describe(d, f), "<=" if slack == 0 else "<", za.describe(d, ln))
    return False, "%s vs %s" % (za.describe(d, f), za.describe(d, ln))


# ------------------------------------------------------------------------------------------------------------
# T2: categorical
# ------------------------------------------------------------------------------------------------------------

OUTPUT_CALLS = ("write_fmt", "flush", "write_all", "write", "write_str")


def t2(site):
    fn, b, t = site.fn, site.bb, site.term
    if site.kind == "output":
        return "T2a", "print!/eprint! panic only when the write to stdout/stderr fails (the state of the output pipe is outside the property's quantifier)"
    if site.kind == "extapi":
        return t2_extapi(site)
    if site.kind != "unwrap":
        return None
    o = prim.expand_single_def_vars(fn, prim.origin_of_operand(fn, t.args[0])).strip()
    inst = t.j.get("callee_inst") or ""
    # (a) output failure
    if o.k == "call" and o.a["name"] in OUTPUT_CALLS and ("io::Write" in (o.a.get("inst") or "") or "io::Write" in o.a["callee"] or "Stderr" in (o.a.get("inst") or "")):
        return "T2a", "result of %s on an output stream (the state of the output pipe is outside the property's quantifier)" % o.a["name"]
    # (b) constant-only
    if o.k == "call" and not any(x.k in ("arg", "var", "field", "index", "phi", "unknown") for x in o.walk()) and all(c.a["callee"].split("::")[0] in ("regex", "std", "core", "onig", "chrono") for c in o.call_nodes()):
        leaves = [x for x in o.walk() if x.k == "const"]
        if leaves:
            return "T2b", "all operands are constants (%s): input-independent" % o.fmt()[:80]
    # (c) clock
    if o.k == "call" and o.a["name"] == "duration_since":
        a0 = o.kids[0]
        a1 = o.kids[1].strip()
        if any(c.a["name"] == "now" for c in a0.call_nodes()) and "UNIX_EPOCH" in str(a1.a):
            return "T2c", "now.duration_since(UNIX_EPOCH): the clock is after 1970"
    if o.k == "call" and o.a["name"] == "from_timestamp" and any(c.a["name"] == "now" for c in o.call_nodes()):
        return "T2c", "DateTime::from_timestamp(seconds of now, 0): in chrono's range"
    return None


def _const_operand(fn, op):
    o = prim.expand_single_def_vars(fn, prim.origin_of_operand(fn, op)).strip()
    if o.k == "const":
        return o
    return None


_ADAPTORS = ("find_map", "map", "for_each", "filter_map", "flat_map", "any", "all", "find", "position", "filter", "fold", "try_for_each", "try_fold", "max_by_key", "min_by_key")
_ITER_ONLY = ("iter", "into_iter", "copied", "cloned", "rev", "deref", "as_slice", "as_ref", "borrow", "by_ref")


def _const_candidates(fn, op, depth=3):
    """the constants an operand can be when it is (derived from) the parameter of a closure that is run over a constant
    list — `[A, B].iter().find_map(|&id| m.get_one(id))`: {A, B}; None when that cannot be established"""
    prog = getattr(fn, "prog", None)
    if prog is None:
        return None
    cf = fn
    o = prim.expand_single_def_vars(cf, prim.origin_of_operand(cf, op))
    for _ in range(depth):
        s = o.strip()
        while s.k in ("ref", "deref") and s.kids:
            s = s.kids[0].strip()
        if s.k == "const":
            return {s.a.get("v")} if isinstance(s.a.get("v"), str) else None
        if not cf.closure_of:
            return None
        parent = prim.closure_parent(prog, cf)
        if parent is None:
            return None
        if s.k == "arg" and s.a.get("idx", 0) >= 2:
            # the closure's own parameter: what does the parent run the closure over?
            for pb, pt in parent.calls():
                if pt.j.get("callee_name") in _ADAPTORS and any(("closure:%s" % cf.path) in prim.origin_of_operand(parent, a).fmt() for a in pt.args[1:]):
                    recv = prim.resolve_promoted(parent, prim.expand_single_def_vars(parent, prim.origin_of_operand(parent, pt.args[0])))
                    if any(cn.a["name"] not in _ITER_ONLY for cn in recv.call_nodes()):
                        return None
                    arrs = [x for x in recv.walk() if x.k == "agg" and str(x.a) == "array"]
                    if len(arrs) != 1:
                        return None
                    vals = set()
                    for k_ in arrs[0].kids:
                        ks = prim.resolve_promoted(parent, k_).strip()
                        if ks.k != "const" or not isinstance(ks.a.get("v"), str):
                            return None
                        vals.add(ks.a["v"])
                    return vals or None
            return None
        # a captured variable of the enclosing closure / function
        o2 = prim.resolve_upvars(prog, cf, o)
        if o2.fmt() == o.fmt():
            return None
        o, cf = o2, parent
    return None


def t2_extapi(site):
    """library entry points whose panic condition is a function of program constants only (T2b), or of nothing the input
    controls"""
    fn, t = site.fn, site.term
    c = strip_generics_path(t.callee or "")
    n = t.j.get("callee_name")
    if c.startswith("clap::ArgMatches::"):
        k = _const_operand(fn, t.args[1]) if len(t.args) > 1 else None
        if k is not None and isinstance(k.a.get("v"), str):
            return "T2b", "clap lookup of the constant id %r: whether the id exists and has this type is decided by the constant argument table (the same on every run)" % k.a["v"]
        cands = _const_candidates(fn, t.args[1]) if len(t.args) > 1 else None
        if cands:
            return "T2b", "clap lookup of an id drawn from the constant list %s (the closure runs over that list only): decided by the constant argument table" % sorted(cands)
        return None
    if n in ("from_str_radix", "is_digit", "to_digit", "from_digit"):
        k = _const_operand(fn, t.args[-1])
        if k is not None and isinstance(k.a.get("v"), int) and 2 <= k.a["v"] <= 36:
            return "T2b", "constant radix %d" % k.a["v"]
        return None
    if n in ("div_ceil", "div_euclid", "rem_euclid"):
        k = _const_operand(fn, t.args[-1])
        if k is not None and isinstance(k.a.get("v"), int) and k.a["v"] > 0:
            return "T2b", "constant positive divisor %d (unsigned: no overflow case)" % k.a["v"]
        # one of several constants chosen by a match (`unit.bytes()` spliced in): each alternative a positive constant
        do = prim.expand_single_def_vars(fn, prim.origin_of_operand(fn, t.args[-1]))
        alts = prim.flatten_phi(do)
        vals = [prim.const_eval(a_) for a_ in alts]
        if len(alts) >= 2 and all(isinstance(v_, int) and v_ > 0 for v_ in vals) and "u" in str(fn.local_ty(t.args[-1].place.local) if t.args[-1].place is not None else "u"):
            return "T2b", "divisor is one of the positive constants %s (unsigned: no overflow case)" % sorted(set(vals))
        return None
    if c == "chrono::DateTime::format":
        k = _const_operand(fn, t.args[1])
        if k is not None and isinstance(k.a.get("v"), str):
            bad = _strftime_invalid(k.a["v"])
            if not bad:
                return "T2b", "constant strftime format %r: every item is one chrono formats for a DateTime" % k.a["v"]
            return None
        return None
    return None


# strftime specifiers chrono 0.4 accepts for a DateTime (format/strftime.rs), without padding modifiers
_STRFTIME_OK = set("YCyGgmbBhdeaAwujUWVDxFvHkIlPpMSfTXrRZzcs+tn%")


def _strftime_invalid(fmt):
    i = 0
    bad = []
    while i < len(fmt):
        ch = fmt[i]
        if ch != "%":
            i += 1
            continue
        i += 1
        if i < len(fmt) and fmt[i] in "-_0":
            i += 1
        if i < len(fmt) and fmt[i] == ".":
            # %.f %.3f %.6f %.9f
            j = i + 1
            if j < len(fmt) and fmt[j] in "369":
                j += 1
            if j < len(fmt) and fmt[j] == "f":
                i = j + 1
                continue
            bad.append(fmt[i - 1:j + 1])
            i = j
            continue
        if i < len(fmt) and fmt[i] in "369" and i + 1 < len(fmt) and fmt[i + 1] == "f":
            i += 2
            continue
        if i < len(fmt) and fmt[i] == ":":
            j = i
            while j < len(fmt) and fmt[j] == ":":
                j += 1
            if j < len(fmt) and fmt[j] == "z":
                i = j + 1
                continue
            bad.append(fmt[i - 1:j + 1])
            i = j
            continue
        if i >= len(fmt) or fmt[i] not in _STRFTIME_OK:
            bad.append(fmt[i - 1:i + 1])
        i += 1
    return bad


# ------------------------------------------------------------------------------------------------------------
# T3: reviewed table
# ------------------------------------------------------------------------------------------------------------

def load_table():
    if not os.path.exists(TABLE):
        return {"preconditions": {}, "obligations": []}
    with open(TABLE) as fh:
        return json.load(fh)


def check_condition(prog, site, cond):
    """machine-checked side condition of a T3 entry; returns (ok, text)"""
    fn, b, t = site.fn, site.bb, site.term
    ty = cond.get("type")
    if ty == "none":
        return True, "reviewed (no mechanical side condition)"
    gs = prim.dominating_guards(fn, b)
    if ty == "dominated_by_true":
        want = cond["callee"] if isinstance(cond["callee"], list) else [cond["callee"]]
        truth = cond.get("value", True)
        for at in prim.norm_guards(gs):
            pr = at["a"].strip()
            bconst = at["b"].strip()
            if pr.k == "call" and pr.a["name"] in want and bconst.k == "const" and bconst.a.get("v") is True and (at["rel"] == "eq") == truth:
                return True, "dominated by %s() == %s" % (pr.a["name"], truth)
        return False, "no dominating %s() == %s; guards: %s" % ("/".join(want), truth, prim.guards_fmt(gs)[:200])
    atoms = prim.norm_guards(gs)
    is_len = lambda x: any(c.a["name"] == "len" for c in x.call_nodes())
    cval = lambda x: x.strip().a.get("v") if x.strip().k == "const" and isinstance(x.strip().a.get("v"), int) and not isinstance(x.strip().a.get("v"), bool) else None

    def lower_bound(sel):
        """largest n such that the guards imply sel-operand >= n (None when nothing is known)"""
        best = None
        for at in atoms:
            for (x, y, rel) in ((at["a"], at["b"], at["rel"]), (at["b"], at["a"], prim._SWAP[at["rel"]])):
                c = cval(y)
                if c is None or not sel(x):
                    continue
                lb = {"gt": c + 1, "ge": c, "eq": c}.get(rel)
                if rel == "ne" and c == 0:
                    lb = 1          # unsigned
                if lb is not None and (best is None or lb > best):
                    best = lb
        return best
    if ty == "dominated_by_len_eq":
        n = cond["value"]
        if prim.atom_holds(atoms, "eq", is_len, lambda y: cval(y) == n) is not None:
            return True, "dominated by len() == %d" % n
        return False, "no dominating len() == %d" % n
    if ty == "dominated_by_len_gt":
        n = cond["value"]
        lb = lower_bound(is_len)
        if lb is not None and lb >= n + 1:
            return True, "dominated by len() > %d" % n
        return False, "no dominating len() > %d; guards %s" % (n, prim.guards_fmt(gs)[:200])
    if ty == "dominated_by_discr":
        # inside the arm of `callee(..)` whose result was matched as variant `label`
        want, lab = cond["callee"], cond["label"]
        for gd in gs:
            pr = gd["pred"].strip()
            if pr.k == "discr" and any(c.a["name"] == want for c in pr.call_nodes()) and gd["labels"] == [lab]:
                return True, "inside the arm %s() -> variant %s" % (want, lab)
        return False, "not inside the arm %s() -> %s; guards %s" % (want, lab, prim.guards_fmt(gs)[:200])
    if ty == "operand_from":
        want = cond["callee"]
        o = prim.expand_single_def_vars(fn, prim.origin_of_operand(fn, t.args[cond.get("arg", 0)]))
        if any(c.a["name"] == want or c.a["callee"].endswith(want) for c in o.call_nodes()):
            return True, "operand derives from %s" % want
        return False, "operand %s does not derive from %s" % (o.fmt()[:160], want)
    if ty == "vec_nonempty_invariant":
        return _vec_nonempty(prog, cond["adt"], cond["field"])
    if ty == "callers_pass_some":
        # every caller of this function establishes `field.is_some()` on the argument
        callee = fn.path
        field = cond["field"]
        n = 0
        for f2, b2, t2_ in prog.all_calls():
            if t2_.callee == callee:
                n += 1
                ok = False
                for gd in prim.dominating_guards(f2, b2):
                    pr = gd["pred"].strip()
                    if pr.k == "call" and pr.a["name"] == "is_some" and gd["bool"] is True and any(x.k == "field" and x.a == field for x in pr.walk()):
                        ok = True
                if not ok:
                    return False, "caller %s does not test %s.is_some()" % (f2.path, field)
        return (n > 0), "all %d callers test %s.is_some()" % (n, field)
    if ty == "constructor_validates":
        # the type's constructor calls `callee` and `?`-propagates its failure before returning Ok(..)
        ctor = prog.fns.get(cond["ctor"])
        if ctor is None:
            return False, "constructor %s not found" % cond["ctor"]
        calls = [(bb, tt) for bb, tt in ctor.calls() if (tt.callee or "").endswith(cond["callee"])]
        if len(calls) != 1:
            return False, "%s calls %s at %d sites" % (cond["ctor"], cond["callee"], len(calls))
        bb, tt = calls[0]
        oks = [x for x in ctor.reachable() for st in ctor.blocks[x].stmts if st.rv is not None and st.rv.k == "agg" and st.rv.j.get("adt") == "std::result::Result" and st.rv.j.get("variant") == "Ok" and st.lhs.is_local() and st.lhs.local == 0]
        if not oks or not all(prim.must_pass(ctor, 0, [x], [bb]) for x in oks):
            return False, "an Ok return of %s does not pass %s" % (cond["ctor"], cond["callee"])
        # its result goes through `?`
        nxt = ctor.blocks[tt.target].term if tt.target is not None else None
        if nxt is None or nxt.k != "call" or nxt.j.get("callee_name") != "branch":
            return False, "the result of %s is not `?`-propagated" % cond["callee"]
        # and the site's own callee is that validated function applied to the same receiver kind
        o = prim.origin_of_operand(fn, t.args[0]).strip()
        same = o.k == "call" and o.a["callee"].endswith(cond["callee"])
        return same, "%s runs %s()? before returning Ok; this site unwraps the same call" % (prim.short(cond["ctor"]), cond["callee"])
    if ty == "strftime_validated":
        # the format handed to DateTime::format is the payload of `adt::variant` (possibly through str::replace with a
        # valid constant), and every construction of that variant stores either a valid constant or a string that passed
        # `StrftimeItems::new(..).next()` != None/Item::Error on the way
        o0 = prim.resolve_promoted(fn, prim.expand_single_def_vars(fn, prim.origin_of_operand(fn, t.args[1])))
        # the format may be chosen first (`let f = match self { Ctime => CONST, Strftime(s) => s, .. }`) and used once
        s0 = o0.strip()
        while s0.k == "call" and s0.a["name"] in ("deref", "as_str", "as_ref", "borrow", "into", "from") and s0.kids:
            s0 = s0.kids[0].strip()
        if s0.k == "var" and s0.a.get("local") is not None and len([x for x in prim.local_defs(fn).get(s0.a["local"], []) if x[1] != "partial"]) > 1:
            alts = [prim.resolve_promoted(fn, prim.expand_single_def_vars(fn, od_)) for _, od_ in prim.defs_origins(fn, s0.a["local"])]
        else:
            alts = list(prim.flatten_phi(o0))
        any_payload = False
        for o in alts:
            names = {c.a["name"] for c in o.call_nodes()}
            if not names <= {"replace", "deref", "as_str", "as_ref", "borrow", "into", "from", "to_owned", "to_string", "clone", "into_owned"}:      # (identity conversions, e.g. into a Cow)
                return False, "format operand %s goes through %s" % (o.fmt()[:120], sorted(names))
            is_payload = any(x.k == "variant" and str(x.a) == cond["variant"] for x in o.walk())
            any_payload = any_payload or is_payload
            if not is_payload and any(x.k in ("arg", "var", "field") for x in o.walk()):
                return False, "format operand %s is not the payload of %s" % (o.fmt()[:120], cond["variant"])
            for c in o.consts():
                v = c.get("v")
                if isinstance(v, str) and v != "%+" and _strftime_invalid(v):
                    return False, "constant %r is not a valid strftime format" % v
        if not any_payload:
            return False, "format operand %s is not the payload of %s" % (o0.fmt()[:120], cond["variant"])
        n = 0
        for f2 in prog.fns.values():
            if "::tests::" in f2.path or f2.crate != fn.crate:
                continue
            for b2 in f2.reachable():
                for st in f2.blocks[b2].stmts:
                    if st.rv is not None and st.rv.k == "agg" and st.rv.j.get("adt") == cond["adt"] and st.rv.j.get("variant") == cond["variant"]:
                        n += 1
                        po = prim.expand_single_def_vars(f2, prim.origin_of_operand(f2, st.rv.ops[0]))
                        cs = [c.get("v") for c in po.consts() if isinstance(c.get("v"), str)]
                        if not any(x.k in ("arg", "var", "field", "phi") for x in po.walk()) and cs and not any(_strftime_invalid(v) for v in cs):
                            continue
                        some = item = False
                        for gd in prim.dominating_guards(f2, b2):
                            pr = gd["pred"]
                            if not any(c.a["name"] == "next" for c in pr.call_nodes()) or not any("StrftimeItems" in c.a["callee"] or c.a["name"] == "new" for c in pr.call_nodes()):
                                continue
                            dty = prim.discr_type_of_switch(f2, gd["bb"]) or ""
                            if dty.startswith("std::option::Option") and gd["labels"] == [1]:
                                some = True
                            if dty == "chrono::format::Item" and gd["labels"] == ["else"]:
                                arms = [v for v, _ in f2.blocks[gd["bb"]].term.j["arms"]]
                                item = arms == [cond.get("error_discr", 6)]
                        if not (some and item):
                            return False, "%s::%s built in %s from %s without the StrftimeItems validation" % (cond["adt"], cond["variant"], f2.path, po.fmt()[:100])
        return n > 0, "all %d constructions of %s store a valid constant or a string whose first (only) item was parsed by StrftimeItems and is not Item::Error" % (n, cond["variant"])
    if ty == "captures_group_total":
        # `caps[i]` on a match of a constant regex in which group i takes part in every match
        idx = t.args[1].const_value()
        pats = []
        for bb, tt in fn.calls():
            if (tt.callee or "").startswith("regex::Regex::new"):
                po = prim.origin_of_operand(fn, tt.args[0]).strip()
                if po.k == "const":
                    pats.append(po.a.get("v"))
        via_closure = False
        if not pats and fn.closure_of:
            # the index is taken inside a closure run on the Some payload of captures(): `re.captures(s).and_then(|caps| caps[2]..)`
            parent = prim.closure_parent(prog, fn)
            ro = prim.origin_of_operand(fn, t.args[0]).strip()
            if parent is not None and ro.k == "arg" and ro.a.get("idx", 0) >= 2:
                for bb, tt in parent.calls():
                    if (tt.callee or "").startswith("regex::Regex::new"):
                        po = prim.resolve_promoted(parent, prim.origin_of_operand(parent, tt.args[0])).strip()
                        if po.k == "const":
                            pats.append(po.a.get("v"))
                for bb, tt in parent.calls():
                    if tt.j.get("callee_name") in ("and_then", "map", "map_or", "map_or_else", "is_some_and", "filter", "inspect", "filter_map") and (tt.callee or "").startswith(("std::option::Option", "core::option::Option")) \
                            and any(("closure:%s" % fn.path) in prim.origin_of_operand(parent, a).fmt() for a in tt.args[1:]):
                        po = prim.expand_single_def_vars(parent, prim.origin_of_operand(parent, tt.args[0]))
                        if any(cn.a["name"] == "captures" for cn in po.call_nodes()):
                            via_closure = True
        if len(pats) != 1 or not isinstance(idx, int):
            return False, "cannot identify the regex literal / constant group index"
        ok, why = _group_total(pats[0], idx)
        # and the Captures value comes from a successful captures() of it
        o = prim.expand_single_def_vars(fn, prim.origin_of_operand(fn, t.args[0]))
        from_caps = via_closure or (any(c.a["name"] == "captures" for c in o.call_nodes()) and any(x.k == "variant" and str(x.a) == "Some" for x in o.walk()))
        return ok and from_caps, "group %s of %r %s" % (idx, pats[0], why)
    if ty == "dominated_by_count_eq":
        n = cond["value"]
        for gd in gs:
            pr = gd["pred"].strip()
            if pr.k == "bin" and pr.a == "Eq" and gd["bool"] is True and any(c.get("v") == n for c in pr.consts()) and any(c.a["name"] == "count" for c in pr.call_nodes()):
                # the counted sequence is the one whose length is used at the site
                m = t.j.get("msg", {})
                src = None
                if "a" in m:
                    src = prim.origin_of_operand(fn, Operand(m["a"]))
                counted = [x.a.get("local") for x in prim.expand_single_def_vars(fn, pr).walk() if x.k == "var"]
                used = [x.a.get("local") for x in src.walk() if x.k == "var"] if src is not None else []
                if src is None or (set(counted) & set(used)):
                    return True, "dominated by count() == %d over the same sequence (a sequence with %d matching element(s) has length >= %d)" % (n, n, n)
        return False, "no dominating count() == %d over the sequence; guards %s" % (n, prim.guards_fmt(gs)[:200])
    if ty == "inner_match_covers_arm":
        # unreachable!() in the wildcard arm of an inner `match s {lits.. , _ => unreachable}` nested in an arm of the
        # function's large string dispatch. Only tests made *inside* the enclosing arm count (the dispatch chain itself has
        # already tested every earlier literal false on the way to any arm).
        #  - entry for an arm of primaries (`"-atime" | "-ctime" | "-mtime" => match args[i] {.., _ => unreachable!()}`): the
        #    enclosing arm is the one the entry names, the inner tests are on the arm's own token (cursor not moved) and
        #    cover every literal of the arm;
        #  - entry for other literals (the `;`/`+` scan of -exec): the inner tests cover the literals the entry names.
        from . import dispatch as _dispatch
        arms = cond["arm"]
        ds = _dispatch.find_dispatches(fn)
        d = ds[0] if ds and len(ds[0].tests) >= 10 else None
        entry, lits = None, None
        if d is not None:
            for e_, ls_ in d.arms.items():
                if fn.dominates(e_, b) and (entry is None or fn.dominates(entry, e_)):
                    entry, lits = e_, list(ls_)
        inner = set()
        subj_ok = True
        arm_info = None
        if entry is not None:
            arm_info = _dispatch.ArmInfo(fn, None, lits, entry, {x for x in fn.reach_from([entry]) if fn.dominates(entry, x)})
        for gd in gs:
            pr = gd["pred"].strip()
            if pr.k == "call" and pr.a["name"] in ("eq", "ne"):
                ls = [c.get("v") for c in pr.consts() if c.get("k") == "str"]
                if not ls:
                    continue
                if entry is not None and not (gd["bb"] == entry or fn.dominates(entry, gd["bb"])):
                    continue        # a test of the dispatch chain, not of the inner match
                is_true = (pr.a["name"] == "eq") == (gd["bool"] is True)
                if not is_true:
                    inner.add(ls[0])
                    if arm_info is not None and all(str(x).startswith("-") for x in arms) and ls[0] in arms:
                        from .rules import common as _C
                        subj = [k for k in pr.kids if not (prim.resolve_promoted(fn, k).strip().k == "const")]
                        if not subj or _C.arm_token_abs(fn, arm_info, subj[0], gd["bb"]) != 0:
                            subj_ok = False
        if entry is not None and all(str(x).startswith("-") for x in arms):
            ok = set(lits) == set(arms) and set(arms) <= inner and subj_ok
            return ok, "the site is in the arm %s of the dispatch, on the all-false chain of tests %s made inside that arm on its own token (%s); entry for %s" % (lits, sorted(inner & set(arms)), "cursor unmoved" if subj_ok else "subject is not the arm's token", arms)
        ok = set(arms) <= inner
        return ok, "the site is on the all-false chain of inner tests %s which cover %s" % (sorted(inner & set(arms)), arms)
    if ty == "guard_false_lt_sum":
        # `&s[start..end]` where a dominating guard `end < base + k` is false and every constant assigned to the user local k is
        # >= the offset used in `start = base + offset` (role-based: locals are identified through the range operands)
        rng = prim.origin_of_operand(fn, t.args[1]).strip()
        if rng.k != "agg" or "Range" not in str(rng.a) or len(rng.kids) < 2:
            return False, "index operand is not a range"
        st_, en_ = rng.kids[0].strip(), rng.kids[1].strip()
        core = st_.kids[0].strip() if st_.k == "field" and st_.kids else st_
        if not (core.k == "bin" and core.a in ("Add", "AddWithOverflow") and en_.k == "var"):
            return False, "range is not base+offset .. end"
        base_l = [x.a.get("local") for x in core.walk() if x.k == "var"]
        off = [c.get("v") for c in core.consts() if isinstance(c.get("v"), int)]
        end_l = en_.a.get("local")
        for gd in gs:
            pr = gd["pred"].strip()
            if pr.k == "bin" and pr.a == "Lt" and gd["bool"] is False:
                l, r = pr.kids[0].strip(), pr.kids[1].strip()
                rc = r.kids[0].strip() if r.k == "field" and r.kids else r
                if l.k == "var" and l.a.get("local") == end_l and rc.k == "bin" and rc.a in ("Add", "AddWithOverflow"):
                    vs = [x.a.get("local") for x in rc.walk() if x.k == "var"]
                    if base_l and base_l[0] in vs:
                        ks = [v for v in vs if v != base_l[0]]
                        vals = [v for l_ in ks for _, v in prim.const_assigns_to(fn, l_)]
                        if ks and vals and off and min(vals) >= max(off):
                            return True, "guard `end < base + k` is false on the way here and every value of k (%s) is >= the offset %s" % (sorted(set(vals)), off)
        return False, "no dominating false guard `end < base + k` with k >= offset; guards %s" % prim.guards_fmt(gs)[:200]
    if ty == "param_true_and_callers":
        p = cond["param"]
        def is_p(o):
            o = o.strip()
            return (o.k == "arg" and o.a["name"] == p) or (o.k == "var" and o.a.get("name") == p)
        dom = any((is_p(gd["pred"]) and gd["bool"] is True) or
                  (gd["pred"].strip().k == "un" and gd["pred"].strip().a == "Not" and is_p(gd["pred"].strip().kids[0]) and gd["bool"] is False) for gd in gs)
        if not dom:
            return False, "site not dominated by %s == true; guards %s" % (p, prim.guards_fmt(gs)[:200])
        pi = [l for l in fn.locals_named(p) if 1 <= l <= fn.arg_count]
        qi = [l for l in fn.locals_named(cond["index_param"]) if 1 <= l <= fn.arg_count]
        if not pi or not qi:
            return False, "parameters not found"
        n = 0
        for f2, b2, t2_ in prog.all_calls():
            if t2_.callee != fn.path:
                continue
            n += 1
            flag = t2_.args[pi[0] - 1].const_value()
            io = prim.origin_of_operand(f2, t2_.args[qi[0] - 1]).strip()
            core = io.kids[0].strip() if io.k == "field" and io.kids else io
            pos = core.k == "bin" and core.a in ("Add", "AddWithOverflow") and any(isinstance(c.get("v"), int) and c["v"] >= 1 for c in core.consts())
            if flag is True and not pos:
                return False, "caller %s passes %s=true with index %s (not provably >= 1)" % (f2.path, p, io.fmt())
            if flag is None:
                return False, "caller %s passes a non-constant %s" % (f2.path, p)
        return n > 0, "dominated by %s == true, and all %d callers pass %s=true only with %s = <expr> + 1" % (p, n, p, cond["index_param"])
    if ty == "dominated_by_gt_zero":
        want = cond.get("callee")
        lb = lower_bound(lambda x: want is None or any(c.a["name"] == want for c in prim.expand_single_def_vars(fn, x).call_nodes()))
        if lb is not None and lb >= 1:
            return True, "dominated by %s > 0" % (want or "value")
        return False, "no dominating `%s > 0`; guards %s" % (want, prim.guards_fmt(gs)[:200])
    if ty == "dominated_by_field_lt":
        a_, b_ = cond["lhs"], cond["rhs"]
        isf = lambda nm: (lambda x: x.strip().k == "field" and x.strip().a == nm)
        if prim.atom_holds(atoms, "lt", isf(a_), isf(b_)) is not None:
            return True, "dominated by self.%s < self.%s (so +1 cannot overflow)" % (a_, b_)
        return False, "no dominating self.%s < self.%s; guards %s" % (a_, b_, prim.guards_fmt(gs)[:200])
    if ty == "variant_constructed_under_len_gt":
        adt, var = cond["adt"], cond["variant"]
        n = 0
        for f2 in prog.fns.values():
            for b2 in f2.reachable():
                for st in f2.blocks[b2].stmts:
                    if st.rv is not None and st.rv.k == "agg" and st.rv.j.get("adt") == adt and st.rv.j.get("variant") == var:
                        n += 1
                        ok = False
                        for gd in prim.dominating_guards(f2, b2):
                            pr = gd["pred"].strip()
                            if pr.k == "bin" and pr.a == "Gt" and gd["bool"] is True and any(c.get("v") == 0 for c in pr.consts()) and any(c.a["name"] == "len" for c in pr.call_nodes()):
                                ok = True
                        if not ok:
                            return False, "%s::%s constructed in %s without a dominating len() > 0" % (adt, var, f2.path)
        return n > 0, "all %d constructions of %s::%s are dominated by len() > 0 of the collected arguments" % (n, adt.split("::")[-1], var)
    if ty == "const_arg":
        v = t.args[cond["arg"]].const_value()
        return (v == cond["value"]), "argument %d is %s" % (cond["arg"], v)
    return False, "unknown condition type %s" % ty


def _vec_nonempty(prog, adt, field):
    """<adt>.<field> is a Vec that is non-empty whenever a &self/&mut self method runs: every constructor pushes before
    returning and nothing but push (and by-value consumers) mutates it"""
    ctor_ok = False
    details = []
    for f in prog.fns.values():
        if f.impl_self != adt and not f.path.startswith(adt + "::"):
            continue
        recv_by_value = f.arg_count >= 1 and not f.local_ty(1).startswith("&") and f.local_ty(1).endswith(adt.split("::")[-1])
        for b, t in f.calls():
            n = t.j.get("callee_name")
            if not t.args:
                continue
            o = prim.origin_of_operand(f, t.args[0])
            on_field = any(x.k == "field" and x.a == field for x in o.walk())
            if not on_field:
                continue
            if n in ("pop", "remove", "clear", "truncate", "drain", "swap_remove", "retain", "split_off") and "Vec" in (t.callee or ""):
                if not recv_by_value:
                    return False, "%s calls Vec::%s on %s.%s through a reference" % (f.path, n, adt, field)
        if f.path == adt + "::new":
            pushes = [b for b, t in f.calls() if t.j.get("callee_name") == "push"]
            if pushes and all(prim.must_pass(f, 0, [r], pushes) for r in f.return_blocks()):
                ctor_ok = True
            # or a `vec![a, ..]` literal with at least one element (lowers to box_assume_init_into_vec_unsafe::<T, N>)
            for b in f.reachable():
                for s in f.blocks[b].stmts:
                    if s.rv is not None and s.rv.k == "agg" and s.rv.j.get("adt") == adt and field in (s.rv.j.get("fields") or []):
                        fo = prim.origin_of_operand(f, s.rv.ops[s.rv.j["fields"].index(field)]).strip()
                        if fo.k == "call" and fo.a["name"] == "box_assume_init_into_vec_unsafe":
                            inst = (fo.a.get("inst") or "")
                            m = re.search(r",\s*(\d+)>$", inst)
                            if m and int(m.group(1)) >= 1:
                                ctor_ok = True
    for f in prog.fns.values():
        if f.path.startswith(adt + "::") or f.impl_self == adt:
            continue
        for b in f.reachable():
            for s in f.blocks[b].stmts:
                if s.rv is not None and s.rv.k == "agg" and s.rv.j.get("adt") == adt:
                    return False, "%s constructs %s outside its own `new`" % (f.path, adt)
    return ctor_ok, "%s::new pushes one element on every path, only `push` and by-value consumers touch %s" % (adt.split("::")[-1], field)


# ------------------------------------------------------------------------------------------------------------
# interval reasoning over provenance trees (quotients, remainders, shifts, widening casts): T1 for arithmetic that the
# zone domain cannot express
# ------------------------------------------------------------------------------------------------------------

def _ty_range(ty):
    if ty in zone.UNSIGNED:
        return (0, zone.WIDTH_MAX[ty])
    if ty in zone.SIGNED:
        b = zone.SIGNED[ty]
        return (-(1 << (b - 1)), (1 << (b - 1)) - 1)
    return None


def _origin_ty(fn, o):
    s = o
    if s.k == "const":
        return s.a.get("ty")
    if s.k in ("var", "arg"):
        l = s.a.get("local", s.a.get("idx"))
        return fn.local_ty(l) if l is not None else None
    if s.k == "call":
        t = s.a.get("term")
        if t is not None and t.dest is not None and t.dest.is_local():
            return fn.local_ty(t.dest.local)
    if s.k == "cast":
        return s.a
    return None


def interval(fn, o, za=None, d=None, depth=8):
    """(lo, hi) of an integer provenance tree, or None when nothing is known"""
    if depth <= 0 or o is None:
        return None
    s = o
    while s.k in ("ref", "deref") and s.kids:
        s = s.kids[0]
    if s.k == "const":
        v = s.a.get("v")
        return (v, v) if isinstance(v, int) and not isinstance(v, bool) else None
    if s.k in ("var", "arg"):
        l = s.a.get("local", s.a.get("idx"))
        if za is not None and d is not None and l in za.var_of_local:
            v = za.var_of_local[l]
            lo = -d.m[0][v]
            hi = d.m[v][0]
            r = _ty_range(fn.local_ty(l))
            if r is not None:
                lo = max(lo, r[0]) if lo != -zone.INF else r[0]
                hi = min(hi, r[1]) if hi != zone.INF else r[1]
            return (lo, hi)
        return _ty_range(fn.local_ty(l)) if l is not None else None
    if s.k == "field" and s.kids and str(s.a) == "0":
        inner = s.kids[0]
        while inner.k in ("ref", "deref") and inner.kids:
            inner = inner.kids[0]
        if inner.k == "bin":
            return interval(fn, inner, za, d, depth - 1)
    if s.k == "field" and s.kids and str(s.a).isdigit():
        # a component of a tuple built in this body (a helper's `(value, flag)` result): the component itself
        inner = s.kids[0]
        while inner.k in ("ref", "deref") and inner.kids:
            inner = inner.kids[0]
        alts = inner.kids if inner.k == "phi" else [inner]
        comps = []
        for a_ in alts:
            a_ = a_.strip()
            if a_.k == "agg" and a_.a == "tuple" and int(s.a) < len(a_.kids):
                comps.append(a_.kids[int(s.a)])
            else:
                comps = None
                break
        if comps:
            rs = [interval(fn, k_, za, d, depth - 1) for k_ in comps]
            if all(r is not None for r in rs):
                return (min(r[0] for r in rs), max(r[1] for r in rs))
    if s.k == "phi":
        rs = [interval(fn, k, za, d, depth - 1) for k in s.kids]
        if any(r is None for r in rs) or not rs:
            return None
        return (min(r[0] for r in rs), max(r[1] for r in rs))
    if s.k == "cast":
        inner = interval(fn, s.kids[0], za, d, depth - 1)
        dst = _ty_range(s.a)
        if inner is not None and dst is not None and inner[0] >= dst[0] and inner[1] <= dst[1]:
            return inner
        return dst
    if s.k == "un" and str(s.a) == "Neg" and s.kids:
        a = interval(fn, s.kids[0], za, d, depth - 1)
        if a is not None and -zone.INF not in a and zone.INF not in a:
            return (-a[1], -a[0])
        return None
    if s.k == "bin":
        op = s.a
        a = interval(fn, s.kids[0], za, d, depth - 1)
        b = interval(fn, s.kids[1], za, d, depth - 1)
        if op in ("Div",) and a is None and b is not None and b[0] > 0:
            a = _ty_range(_origin_ty(fn, s.kids[0]))          # any value of the numerator's type
        if op in ("Div",) and a is not None and b is not None and (b[0] > 0 or b[1] < 0):
            cands = [int(x / y) for x in a for y in b if x not in (zone.INF, -zone.INF)]
            if len(cands) == 4:
                return (min(cands), max(cands))
        if op == "Rem" and b is not None and b[0] > 0:
            m = b[1] - 1
            if a is not None and a[0] >= 0:
                return (0, m)
            return (-m, m)
        if op in ("Shr", "ShrUnchecked") and a is not None and b is not None and a[0] >= 0 and b[0] >= 0 and a[1] != zone.INF:
            return (0, a[1] >> b[0])
        if op in ("Add", "AddWithOverflow", "AddUnchecked") and a is not None and b is not None:
            return (a[0] + b[0], a[1] + b[1])
        if op in ("Sub", "SubWithOverflow", "SubUnchecked") and a is not None and b is not None:
            return (a[0] - b[1], a[1] - b[0])
        if op in ("Mul", "MulWithOverflow") and a is not None and b is not None and zone.INF not in (a[1], b[1]) and -zone.INF not in (a[0], b[0]):
            c = [x * y for x in a for y in b]
            return (min(c), max(c))
        if op == "BitAnd" and b is not None and b[0] == b[1] and b[0] >= 0:
            return (0, b[0])
    if s.k == "call" and s.a["name"] == "len" and any(x in s.a["callee"] for x in ("slice", "Vec", "str", "String", "OsStr", "OsString", "Path")):
        return (0, zone.MAXLEN)
    if s.k == "len":
        return (0, zone.MAXLEN)
    if s.k == "call" and s.a.get("name") == "from" and "From<bool>" in str(s.a.get("inst") or ""):
        return (0, 1)          # `iN::from(b)` / `uN::from(b)`: false -> 0, true -> 1
    if s.k == "call":
        r = API_RANGES.get((s.a["callee"].split("::<")[0], ))
        if r is None:
            r = API_RANGES.get(s.a["callee"].split("::<")[0])
        if r is not None:
            return r
        return _ty_range(_origin_ty(fn, s))
    return None


# documented result ranges of std APIs (contracts read from the std documentation)
API_RANGES = {
    "std::time::Duration::subsec_nanos": (0, 999_999_999),
    "std::time::Duration::subsec_micros": (0, 999_999),
    "std::time::Duration::subsec_millis": (0, 999),
    "std::char::methods::<impl char>::len_utf8": (1, 4),
    "core::char::methods::<impl char>::len_utf8": (1, 4),
}


def t1_interval(fn, site, za):
    """overflow asserts whose operands have provable numeric ranges"""
    t = site.term
    m = t.j["msg"]
    if m.get("k") != "overflow":
        return False, ""
    st = za.state_before_term(site.bb) if za is not None and za.in_states else None
    d = st[0] if st else None
    oa, ob = Operand(m["a"]), Operand(m["b"])
    ta = za._op_ty(oa) or za._op_ty(ob)
    r = _ty_range(ta)
    if r is None:
        return False, ""
    ia = interval(fn, prim.origin_of_operand(fn, oa), za, d)
    ib = interval(fn, prim.origin_of_operand(fn, ob), za, d)
    if ia is None or ib is None:
        return False, "operand ranges unknown"
    op = m.get("op")
    if op == "Add":
        lo, hi = ia[0] + ib[0], ia[1] + ib[1]
    elif op == "Sub":
        lo, hi = ia[0] - ib[1], ia[1] - ib[0]
    elif op == "Mul":
        if zone.INF in (ia[1], ib[1]) or -zone.INF in (ia[0], ib[0]):
            return False, ""
        c = [x * y for x in ia for y in ib]
        lo, hi = min(c), max(c)
    else:
        return False, ""
    if lo >= r[0] and hi <= r[1]:
        return True, "interval: %s of [%s, %s] and [%s, %s] stays within %s" % (op, ia[0], ia[1], ib[0], ib[1], ta)
    return False, "interval: %s of [%s, %s] and [%s, %s] may leave %s" % (op, ia[0], ia[1], ib[0], ib[1], ta)


# ------------------------------------------------------------------------------------------------------------
# preconditions checked at call sites
# ------------------------------------------------------------------------------------------------------------

def check_preconditions(prog, zc, pre):
    """for each function with declared preconditions, every call site must establish them (zone of the caller).
    returns list of (callee, caller fn, bb, ok, text)"""
    out = []
    for callee, plist in pre.items():
        cf = prog.fns.get(callee)
        if cf is None:
            # the function is gone (folded into its callers, or removed). Its preconditions were assumptions made while its
            # own body was audited; with no body and no call left nothing rests on them. What its callers now do in its
            # place is audited where it stands, without any assumption.
            still_called = any(t.callee == callee for _, _, t in prog.all_calls())
            out.append((callee, None, None, not still_called, "function with declared preconditions not found%s" % ("" if still_called else " and not called any more: nothing is assumed")))
            continue
        n = 0
        for f, b, t in prog.all_calls():
            if t.callee != callee:
                continue
            n += 1
            za = zc.get(f)
            st = za.state_before_term(b)
            if st is None:
                out.append((callee, f, b, True, "call unreachable in the abstract semantics"))
                continue
            d, env = st
            for p in plist:
                def form(x):
                    if x[0] == "zero":
                        return ("lin", 0, 0)
                    ls = [l for l in cf.locals_named(x[1]) if 1 <= l <= cf.arg_count]
                    if not ls:
                        return None
                    actual = t.args[ls[0] - 1]
                    if x[0] == "local":
                        return za.lin_of_operand(actual, env)
                    bl = za.base_local(actual, env)
                    return ("lin", za.len_of_local[bl], 0) if bl is not None else None
                a, b2 = form(p["lhs"]), form(p["rhs"])
                ok = a is not None and b2 is not None and za.le(d, (a[0], a[1], a[2] + p.get("lhs_c", 0)), (b2[0], b2[1], b2[2] + p.get("rhs_c", 0)))
                out.append((callee, f, b, ok, "%s%+d <= %s%+d at the call: %s vs %s" % (p["lhs"][1:], p.get("lhs_c", 0), p["rhs"][1:], p.get("rhs_c", 0), za.describe(d, a), za.describe(d, b2))))
        if n == 0:
            out.append((callee, None, None, False, "no call site found"))
    return out


# ------------------------------------------------------------------------------------------------------------
# recursion (stack depth is input controlled => abort, not an exit status)
# ------------------------------------------------------------------------------------------------------------

def recursion_cycles(prog, roots, crate="findutils"):
    """strongly connected components (size > 1 or self loop) of the call graph among reachable crate functions"""
    reach = [p for p in prog.reachable_fns(roots) if prog.fns[p].crate == crate]
    cg = prog.call_graph()
    idx = {}
    low = {}
    st = []
    on = set()
    out = []
    counter = [0]
    import sys
    sys.setrecursionlimit(10000)

    def strong(v):
        idx[v] = low[v] = counter[0]
        counter[0] += 1
        st.append(v)
        on.add(v)
        for w in cg.get(v, ()):
            if w not in prog.fns or prog.fns[w].crate != crate:
                continue
            if w not in idx:
                strong(w)
                low[v] = min(low[v], low[w])
            elif w in on:
                low[v] = min(low[v], idx[w])
        if low[v] == idx[v]:
            comp = []
            while True:
                w = st.pop()
                on.discard(w)
                comp.append(w)
                if w == v:
                    break
            if len(comp) > 1 or v in cg.get(v, ()):
                out.append(sorted(comp))
    for v in reach:
        if v not in idx:
            strong(v)
    return out


def _group_total(pat, idx):
    """capture group `idx` of regex `pat` participates in every match: not quantified by ? * {0, and not under alternation"""
    depth = 0
    n = 0
    i = 0
    start = None
    stack = []
    if "|" in pat:
        return False, "pattern has alternation"
    while i < len(pat):
        ch = pat[i]
        if ch == "\\":
            i += 2
            continue
        if ch == "[":
            j = pat.find("]", i + 2)
            i = (j if j != -1 else len(pat)) + 1
            continue
        if ch == "(":
            cap = not pat.startswith("(?", i) or pat.startswith("(?P<", i)
            if cap:
                n += 1
            stack.append((n if cap else None, i))
        elif ch == ")":
            g, st = stack.pop()
            nxt = pat[i + 1] if i + 1 < len(pat) else ""
            optional = nxt in ("?", "*") or pat.startswith("{0", i + 1)
            if g == idx:
                # also every enclosing group must be mandatory: approximated by requiring top level
                if stack:
                    return False, "is nested"
                return (not optional), ("is mandatory" if not optional else "is optional")
        i += 1
    return False, "not found"
