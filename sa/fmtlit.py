"""P10 FMT-LITERAL: decode `fmt::Arguments` constructions from MIR.

This nightly lowers `format_args!("lit {} lit", a)` to
    Arguments::new::<N, K>(&b"<len>lit \\xc0<len> lit\\x00", &[Argument::new_display(&a), ..])
and a placeholder-free template to `Arguments::from_str("lit")`.
Template encoding (library/core/src/fmt/mod.rs): 1..=0x7f = literal piece of that length; 0x80 + u16le length = long piece;
0b11xxxxxx = placeholder with optional fields flags(u32le, bit0) width(u16le, bit1) precision(u16le, bit2) arg_index(u16le, bit3),
bit4 = width is an argument index, bit5 = precision is an argument index; a single 0 ends the template.
"""
from . import prim

ALIGN = {0: "left", 1: "right", 2: "center", 3: "unset"}


class FmtError(Exception):
    pass


def parse_bytes_literal(text):
    """bytes of a rustc-printed byte string literal  b"..."  (None when the text is not one)"""
    if not (text.startswith('b"') and text.endswith('"')):
        return None
    s = text[2:-1]
    out = bytearray()
    i = 0
    simple = {"n": 10, "r": 13, "t": 9, "\\": 92, "0": 0, '"': 34, "'": 39}
    while i < len(s):
        ch = s[i]
        if ch == "\\":
            nx = s[i + 1]
            if nx == "x":
                out.append(int(s[i + 2:i + 4], 16))
                i += 4
            elif nx in simple:
                out.append(simple[nx])
                i += 2
            else:
                raise FmtError("unknown escape \\%s in %r" % (nx, text))
        else:
            out.extend(ch.encode("utf-8"))
            i += 1
    return bytes(out)


def decode_template(bs):
    """list of parts: ("lit", str) | ("arg", {index, flags, width, precision, width_arg, precision_arg, align, fill, alternate, debug_hex})"""
    parts = []
    i = 0
    nxt = 0
    if not bs or bs[-1] != 0:
        raise FmtError("template not NUL-terminated")
    while True:
        if i >= len(bs):
            raise FmtError("ran past the template")
        n = bs[i]
        i += 1
        if n == 0:
            if i != len(bs):
                raise FmtError("trailing bytes after the end marker")
            return parts
        if n < 0x80:
            parts.append(("lit", bs[i:i + n].decode("utf-8")))
            i += n
        elif n == 0x80:
            ln = bs[i] | (bs[i + 1] << 8)
            i += 2
            parts.append(("lit", bs[i:i + ln].decode("utf-8")))
            i += ln
        elif n >= 0xC0:
            d = {"flags": None, "width": None, "precision": None, "width_arg": None, "precision_arg": None}
            if n & 1:
                d["flags"] = int.from_bytes(bs[i:i + 4], "little")
                i += 4
            if n & 2:
                d["width"] = int.from_bytes(bs[i:i + 2], "little")
                i += 2
            if n & 4:
                d["precision"] = int.from_bytes(bs[i:i + 2], "little")
                i += 2
            idx = nxt
            if n & 8:
                idx = int.from_bytes(bs[i:i + 2], "little")
                i += 2
            if n & 16:
                d["width_arg"], d["width"] = d["width"], None
            if n & 32:
                d["precision_arg"], d["precision"] = d["precision"], None
            d["index"] = idx
            nxt = idx + 1
            fl = d["flags"]
            if fl is None:
                d["align"] = "unset"
                d["fill"] = " "
                d["plain"] = d["width"] is None and d["precision"] is None and d["width_arg"] is None and d["precision_arg"] is None
            else:
                d["align"] = ALIGN[(fl >> 29) & 3]
                d["fill"] = chr(fl & 0x1FFFFF)
                d["plain"] = False
                d["sign_plus"] = bool(fl & (1 << 21))
                d["alternate"] = bool(fl & (1 << 23))
                d["zero_pad"] = bool(fl & (1 << 24))
                d["debug_hex"] = bool(fl & (3 << 25))
            parts.append(("arg", d))
        else:
            raise FmtError("bad template byte 0x%02x" % n)


class FormatCall:
    """one `format_args!` construction: parts of the template and, per argument index, (trait, Origin of the value)"""

    def __init__(self, fn, bb, parts, args):
        self.fn = fn
        self.bb = bb
        self.raw_parts = parts
        self.args = args
        # a plain Display placeholder whose argument is a string constant (`{END}` with `const END: &str`) is literal
        # text of the template: `format!("a{X}")` and `format!("a'")` are the same template
        folded = []
        for k, v in parts:
            if k == "arg" and v.get("plain") and v["index"] < len(args) and args[v["index"]][0] == "display" and args[v["index"]][1] is not None:
                try:
                    o = prim.resolve_promoted(fn, prim.expand_single_def_vars(fn, args[v["index"]][1])).strip()
                except Exception:
                    o = args[v["index"]][1].strip()
                if o.k == "const" and isinstance(o.a.get("v"), str) and o.a.get("k") in ("str", None):
                    if folded and folded[-1][0] == "lit":
                        folded[-1] = ("lit", folded[-1][1] + o.a["v"])
                    else:
                        folded.append(("lit", o.a["v"]))
                    continue
            if k == "lit" and folded and folded[-1][0] == "lit":
                folded[-1] = ("lit", folded[-1][1] + v)
                continue
            folded.append((k, v))
        self.parts = folded

    def literal_text(self):
        return "".join(p[1] for p in self.parts if p[0] == "lit")

    def placeholders(self):
        return [p[1] for p in self.parts if p[0] == "arg"]

    def shape(self):
        """template re-rendered with {} / {:spec} for messages"""
        out = []
        for k, v in self.parts:
            if k == "lit":
                out.append(v.replace("{", "{{").replace("}", "}}"))
            else:
                spec = ""
                if not v["plain"]:
                    spec = ":%s%s%s" % ({"left": "<", "right": ">", "center": "^", "unset": ""}[v["align"]],
                                        ("%d" % v["width"]) if v["width"] is not None else ("arg%d$" % v["width_arg"] if v["width_arg"] is not None else ""),
                                        (".%d" % v["precision"]) if v["precision"] is not None else (".arg%d$" % v["precision_arg"] if v["precision_arg"] is not None else ""))
                tr = self.args[v["index"]][0] if v["index"] < len(self.args) else "?"
                out.append("{%d%s%s}" % (v["index"], spec, "" if tr == "display" else "?" if tr == "debug" else "/" + tr))
        return "".join(out)


def _array_elems(fn, op):
    """operands of the array aggregate behind a (reference to a) local"""
    pl = op.place
    for _ in range(6):
        if pl is None:
            return None
        defs = [d for d in prim.local_defs(fn).get(pl.local, []) if d[1] == "assign"]
        if len(defs) != 1:
            return None
        rv = defs[0][2].rv
        if rv.k == "agg" and rv.j.get("ak") == "array":
            return rv.ops
        if rv.k in ("ref", "rawptr", "copy_for_deref"):
            pl = rv.place
        elif rv.k == "use" and rv.ops[0].place is not None:
            pl = rv.ops[0].place
        elif rv.k == "cast" and rv.ops[0].place is not None:
            pl = rv.ops[0].place
        else:
            return None
    return None


def format_call_at(fn, bb):
    """FormatCall for the block `bb` whose terminator is Arguments::new / Arguments::from_str, else None"""
    t = fn.blocks[bb].term
    if t.k != "call" or not (t.callee or "").startswith("std::fmt::Arguments"):
        return None
    name = t.j.get("callee_name")
    if name == "from_str":
        v = t.args[0].const_value() if t.args else None
        if v is None:
            o = prim.origin_of_operand(fn, t.args[0]).strip()
            v = o.a.get("v") if o.k == "const" else None
        if v is None:
            raise FmtError("non-literal Arguments::from_str in %s" % fn.path)
        return FormatCall(fn, bb, [("lit", v)] if v else [], [])
    if name != "new":
        return None
    o = prim.origin_of_operand(fn, t.args[0]).strip()
    if o.k != "const":
        raise FmtError("template of Arguments::new is not a constant in %s" % fn.path)
    bs = parse_bytes_literal(o.a.get("text", ""))
    if bs is None:
        raise FmtError("template constant not decodable: %r" % o.a.get("text"))
    parts = decode_template(bs)
    elems = _array_elems(fn, t.args[1]) or []
    args = []
    for e in elems:
        eo = prim.origin_of_operand(fn, e).strip()
        if eo.k == "call" and "fmt::rt::Argument" in eo.a["callee"]:
            tr = eo.a["name"].replace("new_", "")
            args.append((tr, prim.simplify(eo.kids[0]) if eo.kids else None, eo.a.get("inst")))
        else:
            args.append(("?", eo, None))
    return FormatCall(fn, bb, parts, args)


def format_call_of_operand(fn, op):
    """FormatCall whose result flows into operand `op` (the fmt::Arguments passed to write_fmt / format / panic)"""
    o = prim.origin_of_operand(fn, op).strip()
    if o.k == "call" and o.a["callee"].startswith("std::fmt::Arguments"):
        return format_call_at(fn, o.a["bb"])
    return None


def all_format_calls(fn):
    out = []
    for b, t in fn.calls():
        if (t.callee or "").startswith("std::fmt::Arguments") and t.j.get("callee_name") in ("new", "from_str"):
            out.append(format_call_at(fn, b))
    return out
