"""String-keyed dispatch tables recovered from MIR (P4): `match s { "lit" | "lit2" => arm, ... , _ => default }`."""
from collections import defaultdict

from . import prim


class Dispatch:
    """One `match <str> { ... }` recovered as a chain of equality tests linked by their false edges."""

    def __init__(self, fn, tests, default_bb):
        self.fn = fn
        self.tests = tests                # ordered list of test dicts (see prim.str_tests)
        self.default_bb = default_bb
        self.arms = defaultdict(list)     # arm entry block -> [literals]
        for t in tests:
            self.arms[t["true_bb"]].append(t["lit"])
        self.lit_arm = {t["lit"]: t["true_bb"] for t in tests}
        self.head = tests[0]["bb"] if tests else None

    def literals(self):
        return [t["lit"] for t in self.tests]


def find_dispatches(fn):
    """All dispatch chains of a function, outermost first (by number of literals, descending)."""
    tests = prim.str_tests(fn)
    by_bb = {t["bb"]: t for t in tests}
    # a test is a chain head if no other test's false edge leads (through gotos/projection-only blocks) to it
    def settle(b):
        # skip blocks that only re-load the subject (assign + bounds asserts) until a test block or a non-trivial block
        seen = set()
        while b not in seen:
            seen.add(b)
            if b in by_bb:
                return b
            blk = fn.blocks[b]
            t = blk.term
            if t.k == "goto":
                b = t.target
                continue
            if t.k == "assert" and all(s.k == "assign" for s in blk.stmts):
                b = t.target
                continue
            return b
        return b
    nxt = {}
    has_pred = set()
    for t in tests:
        n = settle(t["false_bb"])
        nxt[t["bb"]] = n
        if n in by_bb:
            has_pred.add(n)
    chains = []
    for t in tests:
        if t["bb"] in has_pred:
            continue
        chain = []
        b = t["bb"]
        while b in by_bb and by_bb[b] not in chain:
            chain.append(by_bb[b])
            b = nxt[b]
        chains.append(Dispatch(fn, chain, b))
    chains.sort(key=lambda d: -len(d.tests))
    return chains


class ArmInfo:
    """What one arm of the primary-dispatch does, computed on its region of the CFG."""

    def __init__(self, fn, prog, lits, entry, blocks):
        self.fn = fn
        self.lits = lits
        self.entry = entry
        self.blocks = blocks
        self.calls = prim.calls_in_blocks(fn, blocks)
        self.callees = [t.callee for _, t in self.calls]
        self.resolved = [t.resolved or t.callee for _, t in self.calls]

    def calls_matching(self, *needles):
        return [(b, t) for b, t in self.calls if prim.callee_matches(t, *needles)]

    def for_token(self, tok):
        """the part of this arm that runs for the primary `tok` (rules/common.arm_blocks_for_token): an arm shared by
        several primaries that computes a flag from its own token and branches on it later is, for each of them, only the
        side the flag selects. The arm itself when nothing in it depends on the token."""
        cache = self.__dict__.setdefault("_per_token", {})
        if tok not in cache:
            from .rules import common as C
            try:
                feas = C.arm_blocks_for_token(self.fn, self, tok)
            except Exception:
                feas = None
            if feas is None or feas == set(self.blocks) or not feas:
                cache[tok] = self
            else:
                sub = ArmInfo(self.fn, None, self.lits, self.entry, set(feas))
                sub.__dict__["_per_token"] = {tok: sub}
                cache[tok] = sub
        return cache[tok]

    def field_writes(self, base_ty_suffix=None):
        """(field name, value Origin, bb, stmt) for projections written in the region"""
        out = []
        for b in sorted(self.blocks):
            for s in self.fn.blocks[b].stmts:
                if s.lhs is not None and s.lhs.proj:
                    last = s.lhs.proj[-1]
                    if isinstance(last, dict) and "n" in last:
                        if base_ty_suffix is None or prim.strip_generics(last.get("of", "")).endswith(base_ty_suffix):
                            val = prim._origin_of_def(self.fn, (b, "assign", s), 8, set()) if s.rv is not None else None
                            out.append((last["n"], val, b, s))
            t = self.fn.blocks[b].term
            if t.k == "call" and t.dest is not None and t.dest.proj:
                last = t.dest.proj[-1]
                if isinstance(last, dict) and "n" in last:
                    if base_ty_suffix is None or prim.strip_generics(last.get("of", "")).endswith(base_ty_suffix):
                        out.append((last["n"], prim._origin_of_def(self.fn, (b, "call", t), 8, set()), b, t))
        return out

    def local_writes(self, local):
        out = []
        for bb, kind, obj in prim.local_defs(self.fn).get(local, []):
            if bb in self.blocks and kind in ("assign", "call"):
                out.append((bb, kind, obj))
        return out

    def boxed_matcher_types(self):
        """self types T of `<T as Matcher>::into_box` calls in the region"""
        out = []
        for b, t in self.calls:
            if t.j.get("callee_name") == "into_box":
                out.append(t.j.get("self_ty"))
        return out

    def err_returns(self, with_residual=False):
        """blocks of the region that construct Result::Err (a rejection); with_residual: or return one with `?`"""
        out = []
        for b in sorted(self.blocks):
            for s in self.fn.blocks[b].stmts:
                if s.rv is not None and s.rv.k == "agg" and s.rv.j.get("ak") == "adt" and s.rv.j.get("adt") == "std::result::Result" and s.rv.j.get("variant") == "Err" and s.lhs.is_local() and s.lhs.local == 0:
                    out.append(b)
            t = self.fn.blocks[b].term
            if with_residual and t.k == "call" and t.j.get("callee_name") == "from_residual" and t.dest is not None and t.dest.is_local() and t.dest.local == 0:
                out.append(b)      # `x?`: the failure of x is returned
        return out


def primary_dispatch(ctx, rule, fn, result_local_name=None, min_lits=10):
    """The largest string dispatch of `fn` plus arm regions bounded by the match join."""
    ds = find_dispatches(fn)
    if not ds or len(ds[0].tests) < min_lits:
        ctx.missing(rule, "string dispatch (>= %d literals) in %s" % (min_lits, fn.path))
        return None, None, None
    d = ds[0]
    # result local of the match: the local most arms assign
    res_local = None
    if result_local_name:
        c = fn.locals_named(result_local_name)
        if c:
            res_local = c[0]
    if res_local is None:
        # role-based: the user local holding an optional (boxed) value that is defined in the largest number of places
        best = None
        for l, defs in prim.local_defs(fn).items():
            if l == 0 or fn.local_name(l) is None or not fn.local_ty(l).startswith("std::option::Option<"):
                continue
            n = len([1 for bb, kind, _ in defs if kind in ("assign", "call")])
            if best is None or n > best[0]:
                best = (n, l)
        res_local = best[1] if best else None
    join = prim.match_join(fn, res_local) if res_local is not None else None
    if join is None:
        ctx.missing(rule, "join block of the dispatch in %s" % fn.path)
        return d, None, None
    arms = {}
    stop = {join, d.head}
    for entry, lits in d.arms.items():
        blocks = prim.region(fn, entry, stop)
        arms[tuple(lits)] = ArmInfo(fn, ctx.prog, lits, entry, blocks)
    if d.default_bb is not None:
        blocks = prim.region(fn, d.default_bb, stop)
        arms[("_",)] = ArmInfo(fn, ctx.prog, ["_"], d.default_bb, blocks)
    arms = _split_nested(fn, ctx.prog, d, arms)
    return d, arms, {"join": join, "res_local": res_local}


def _split_nested(fn, prog, d, arms):
    """An arm shared by several tokens that tells them apart again inside (`"-a" | "-and" | "-o" | "-or" | "," => { common
    checks; match tok { "-o" | "-or" => .., .. } }`) is split into one arm per group of tokens that take the same way through
    it: each sub-arm is the part of the region consistent with its tokens. Two arms with separate copies of the common
    checks and one arm with an inner match then look the same to the rules."""
    if not d.tests:
        return arms
    subj = d.tests[0]["subject"].strip().fmt() if d.tests[0].get("subject") is not None else None
    all_tests = prim.str_tests(fn)
    outer_bbs = {t["bb"] for t in d.tests}
    out = {}
    for lits, a in arms.items():
        inner = [t for t in all_tests if t["bb"] in a.blocks and t["lit"] in lits and t.get("subject") is not None and t["subject"].strip().fmt() == subj and t["bb"] not in outer_bbs]
        if len(lits) < 2 or not inner:
            out[lits] = a
            continue
        by_bb = {t["bb"]: t for t in inner}
        groups = {}
        for L in lits:
            seen = set()
            st = [a.entry]
            while st:
                b = st.pop()
                if b in seen or b not in a.blocks:
                    continue
                seen.add(b)
                t = by_bb.get(b)
                if t is not None:
                    st.append(t["true_bb"] if t["lit"] == L else t["false_bb"])
                    continue
                for s in fn.succs(b):
                    st.append(s)
            groups.setdefault(frozenset(seen), []).append(L)
        if len(groups) < 2:
            out[lits] = a
            continue
        for blocks, ls in groups.items():
            out[tuple(ls)] = ArmInfo(fn, prog, ls, a.entry, set(blocks))
    return out


def arm_of(arms, lit):
    for lits, a in arms.items():
        if lit in lits:
            return a.for_token(lit)
    return None
