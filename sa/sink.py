"""Rematerialisation of a bool that is bound once from a pure computation.

`let fatal = opts.exit_on_overflow && (opts.max_args.is_some() || opts.max_lines.is_some());` written before a loop and
tested inside it decides, inside the loop, exactly what the expression written in place would decide: it reads only data
that cannot change while the function runs (fields behind shared-reference parameters, locals bound once), through
comparisons, `!`, `&&`/`||` and a few accessor calls without effects. A path-by-path reading of the function (the event
graphs of the rules, the zone interpreter) loses that connection: the decision was taken on one path long ago, other
events have happened since, and the loop's blocks are shared by all of those paths.

This pass restores the shape the code has without the binding. For a local that is
  * a named, non-`mut` bool that is never borrowed mutably, assigned only inside one single-entry region of the CFG
    (from the nearest common dominator D of its assignments up to them), where
  * the region consists of pure assignments to temporaries, gotos, switches and calls of effect-free accessors
    (`Option::is_some`, `is_none`, `is_empty`, `len`, comparisons), and every place it reads is rooted in a shared-reference
    (or scalar) parameter that is not `mut`, in a local bound once before D and never borrowed mutably, or in a temporary
    of the region itself,
and for every later read of that local that is separated from the assignments by a call with effects (this includes a
read inside a loop that the binding precedes), a copy of the region — in D only the backward slice of its terminator —
is placed in front of the read: the value is computed again where it is used. Recomputing a pure function of unchanged
inputs yields the value the local already holds, so the program's behaviour is the same; what changes is only where the
analyses see the decision being taken. The copies assign the same locals again (no renaming is needed for the same reason).

Everything else is left alone; a region that fails any condition is not touched (the rules then see the binding as a flag
of its own and, if they need to look through it, fail closed)."""
import copy
import os
import sys

_DBG = bool(os.environ.get("SINK_DEBUG"))


def _dbg(*a):
    if _DBG:
        sys.stderr.write("sink: " + " ".join(str(x) for x in a) + "\n")

PURE_CALL_NAMES = ("is_some", "is_none", "is_empty", "len", "eq", "ne", "lt", "le", "gt", "ge", "is_ok", "is_err", "as_str", "as_ref", "deref", "as_deref", "as_slice", "as_bytes", "is_dir", "is_file", "is_symlink")
PURE_CALL_PREFIX = ("std::option::Option", "core::option::Option", "std::result::Result", "core::result::Result", "std::cmp::", "core::cmp::", "core::str::", "std::str::", "core::slice::",
                    "std::vec::Vec", "alloc::vec::Vec", "std::string::String", "alloc::string::String", "std::ops::Deref", "core::ops::Deref", "std::convert::AsRef", "std::path::Path", "std::ffi::OsStr")
SCALARS = ("bool", "usize", "u8", "u16", "u32", "u64", "i8", "i16", "i32", "i64", "isize", "char")
MAX_REGION = 24
MAX_ROUNDS = 12


def _is_pure_call(t):
    return t.get("k") == "call" and t.get("callee_name") in PURE_CALL_NAMES and str(t.get("callee") or "").startswith(PURE_CALL_PREFIX) and isinstance(t.get("target"), int)


def _places(j, out):
    """(base local, has projection, is a write position?) is decided by the caller; collects every place object"""
    if isinstance(j, list):
        for x in j:
            _places(x, out)
    elif isinstance(j, dict):
        if "l" in j and isinstance(j["l"], int) and set(j) <= {"l", "p"}:
            out.append(j)
            for e in j.get("p", []) or []:
                if isinstance(e, dict) and isinstance(e.get("idx"), int):
                    out.append({"l": e["idx"]})          # `a[i]` reads i as well
            return
        for k, v in j.items():
            if k != "sp":
                _places(v, out)


def _succ_keys(t):
    out = []
    for k in ("target", "otherwise"):
        if isinstance(t.get(k), int):
            out.append(t[k])
    for _, b in t.get("arms", []) or []:
        out.append(b)
    return out


def _remap(t, m):
    t = copy.deepcopy(t)
    for k in ("target", "otherwise"):
        if isinstance(t.get(k), int) and t[k] in m:
            t[k] = m[t[k]]
    if t.get("arms"):
        t["arms"] = [[v, m.get(b, b)] for v, b in t["arms"]]
    return t


def _rename(j, fresh):
    """rewrite, in place, every place rooted in a renamed local (and index projections by one)"""
    if isinstance(j, list):
        for x in j:
            _rename(x, fresh)
    elif isinstance(j, dict):
        if "l" in j and isinstance(j["l"], int) and set(j) <= {"l", "p"}:
            if j["l"] in fresh:
                j["l"] = fresh[j["l"]]
            for e in j.get("p", []) or []:
                if isinstance(e, dict) and isinstance(e.get("idx"), int) and e["idx"] in fresh:
                    e["idx"] = fresh[e["idx"]]
            return j
        for k, v in j.items():
            if k != "sp":
                _rename(v, fresh)
    return j


def run_function(j, crate):
    from .model import Function
    n_sunk = 0
    for _ in range(MAX_ROUNDS):
        f = Function(j, crate)
        if not _one(j, f):
            break
        n_sunk += 1
    if n_sunk:
        j["sunk"] = j.get("sunk", 0) + n_sunk
    return n_sunk


def _one(j, f):
    blocks = j["blocks"]
    locs = j["body"]["locals"]
    argc = j["body"]["arg_count"]
    reach = set(f.reachable())
    defs, partial, mutb = {}, set(), set()
    for bi in sorted(reach):
        b = blocks[bi]
        recomputed = isinstance(b.get("sink_clone"), int) and b["sink_clone"] >= 0      # assigns again what is already there
        for si, s in enumerate(b["stmts"]):
            if s.get("k") != "assign":
                continue
            lhs = s.get("lhs") or {}
            if lhs.get("p"):
                partial.add(lhs.get("l"))
            elif not recomputed:
                defs.setdefault(lhs.get("l"), []).append((bi, "assign", si))
            rv = s.get("rv") or {}
            if rv.get("k") in ("ref", "rawptr") and rv.get("bk") != "shared" and isinstance(rv.get("p"), dict):
                if not (rv.get("k") == "rawptr" and str(rv.get("rk", "")).startswith("Fake")):
                    mutb.add(rv["p"].get("l"))
        t = b["term"]
        if t.get("k") == "call" and isinstance(t.get("dest"), dict):
            if t["dest"].get("p"):
                partial.add(t["dest"].get("l"))
            elif not recomputed:
                defs.setdefault(t["dest"].get("l"), []).append((bi, "call", None))
        if t.get("k") == "drop":
            pass

    after_D = {}

    def immutable_input(l, D, inside):
        if l in inside:
            return True
        if l is None or l >= len(locs) or l in mutb or l in partial:
            return False
        d = locs[l]
        if d.get("mut"):
            return False
        ty = str(d.get("ty") or "")
        if 1 <= l <= argc:
            return (ty.startswith("&") and not ty.startswith("&mut")) or ty in SCALARS
        ds = defs.get(l, [])
        if not ds or ty.startswith("&mut"):
            return False
        # a `let` without `mut`, never borrowed mutably: assigned once on every path before it is read. It must be bound
        # before the region is entered and not again afterwards (no assignment at or after D)
        after = after_D.get(D)
        if after is None:
            after = after_D[D] = set(f.reach_from([D]))
        return all(db not in after for db, _, _ in ds)

    preds = f.preds()
    idom = f.dominators()
    for x in sorted(defs):
        if x is None or x <= argc or x >= len(locs) or x in mutb or x in partial:
            continue
        d = locs[x]
        if d.get("mut") or d.get("ty") != "bool" or not d.get("name"):
            continue
        ds = defs[x]
        dbs = sorted({db for db, _, _ in ds})
        if len(ds) < 2 and ds[0][1] != "call":
            continue            # a single plain assignment is read through its definition by the analyses themselves
        if any(k == "call" and not _is_pure_call(blocks[db]["term"]) for db, k, _ in ds):
            continue
        if len({db for db, _, _ in ds}) != len(ds):
            continue
        # nearest common dominator of the assignments
        chain = [dbs[0]]
        b = dbs[0]
        while b != 0 and b in idom:
            b = idom[b]
            chain.append(b)
        D = next((c for c in chain if all(f.dominates(c, db) for db in dbs)), None)
        if D is None:
            continue
        # the test D branches on may be the result of an accessor call that ends the block before it
        for _up in range(4):
            tD = blocks[D]["term"]
            ps_ = preds.get(D, [])
            if tD.get("k") == "switch" and len(ps_) == 1 and not blocks[D]["stmts"]:
                P = ps_[0]
                tP = blocks[P]["term"]
                dl = (tD.get("discr") or {}).get("move") or (tD.get("discr") or {}).get("copy") or {}
                if _is_pure_call(tP) and tP.get("target") == D and isinstance(tP.get("dest"), dict) and not tP["dest"].get("p") and dl.get("l") == tP["dest"].get("l") and not dl.get("p") and P not in dbs:
                    D = P
                    continue
            break
        region, st = set(dbs) | {D}, [db for db in dbs if db != D]
        ok = True
        while st:
            b = st.pop()
            for p in preds.get(b, []):
                if p in region:
                    continue
                if not f.dominates(D, p):
                    ok = False
                    break
                region.add(p)
                if p != D:
                    st.append(p)
        if not ok or len(region) > MAX_REGION:
            _dbg(j["path"], d.get("name"), "region not single-entry or too large", ok, len(region))
            continue
        defk = {db: (k, si) for db, k, si in ds}
        # --- what is copied from each block --------------------------------------------------------------------
        temps = set()
        plan = {}
        for b in sorted(region):
            blk = blocks[b]
            if b == D and b not in defk:
                # only the backward slice of the terminator
                need = []
                _places({k: v for k, v in blk["term"].items() if k not in ("dest", "sp")}, need)
                want = {p["l"] for p in need}
                keep = []
                for si in range(len(blk["stmts"]) - 1, -1, -1):
                    s = blk["stmts"][si]
                    if s.get("k") != "assign":
                        continue
                    lhs = s.get("lhs") or {}
                    if not lhs.get("p") and lhs.get("l") in want and lhs.get("l") > argc and not locs[lhs["l"]].get("name"):
                        keep.append(si)
                        want.discard(lhs["l"])
                        more = []
                        _places(s.get("rv"), more)
                        want |= {p["l"] for p in more}
                plan[b] = sorted(keep)
            elif b in defk and defk[b][0] == "assign":
                plan[b] = list(range(0, defk[b][1] + 1))
            else:
                plan[b] = list(range(len(blk["stmts"])))
            for si in plan[b]:
                s = blk["stmts"][si]
                if s.get("k") == "assign" and not (s.get("lhs") or {}).get("p"):
                    temps.add(s["lhs"]["l"])
            if blk["term"].get("k") == "call" and isinstance(blk["term"].get("dest"), dict) and not blk["term"]["dest"].get("p"):
                temps.add(blk["term"]["dest"]["l"])
        # --- purity -----------------------------------------------------------------------------------------------
        pure = True
        for b in sorted(region):
            blk = blocks[b]
            for si in plan[b]:
                s = blk["stmts"][si]
                if s.get("k") != "assign":
                    if s.get("k") in ("storage_live", "storage_dead", "nop", "fake_read", "coverage", "ascribe", "retag"):
                        continue
                    pure = False
                    break
                lhs = s.get("lhs") or {}
                ll = lhs.get("l")
                if lhs.get("p") or ll is None or (ll != x and (ll <= argc or locs[ll].get("name"))):
                    pure = False
                    break
                rv = s.get("rv") or {}
                if rv.get("k") not in ("use", "un", "bin", "cast", "discr", "ref") or (rv.get("k") == "ref" and rv.get("bk") != "shared"):
                    pure = False
                    break
                if rv.get("k") == "cast" and not str(rv.get("ck", "")).startswith("IntToInt"):
                    pure = False
                    break
                ps = []
                _places(rv, ps)
                if any(not immutable_input(p["l"], D, temps) for p in ps):
                    pure = False
                    break
            if not pure:
                break
            t = blk["term"]
            is_def_assign = b in defk and defk[b][0] == "assign"
            if is_def_assign:
                continue            # the copy ends with the assignment
            if t.get("k") == "goto":
                pass
            elif t.get("k") == "switch":
                ps = []
                _places(t.get("discr"), ps)
                if any(p["l"] not in temps and not immutable_input(p["l"], D, temps) for p in ps):
                    pure = False
            elif _is_pure_call(t):
                ps = []
                _places(t.get("args"), ps)
                if any(not immutable_input(p["l"], D, temps) for p in ps):
                    pure = False
                dest = t.get("dest") or {}
                if dest.get("p") or (dest.get("l") != x and (locs[dest["l"]].get("name") or dest["l"] <= argc)):
                    pure = False
            else:
                pure = False
            if not pure:
                break
            # every way on leads to an assignment of x inside the region
            if not (b in defk and defk[b][0] == "call"):
                if any(sx not in region for sx in _succ_keys(t)):
                    pure = False
                    break
        if not pure:
            _dbg(j["path"], d.get("name"), "region", sorted(region), "not pure at block", b)
            continue
        _dbg(j["path"], d.get("name"), "candidate; region", sorted(region), "D", D)
        # --- the reads that need the value recomputed in place ----------------------------------------------------
        from_defs = set(f.reach_from(dbs))
        for U in sorted(reach - region):
            if U not in from_defs:
                continue
            blk = blocks[U]
            pos = None
            for si, s in enumerate(blk["stmts"]):
                ps = []
                _places(s.get("rv") if s.get("k") == "assign" else s, ps)
                if s.get("k") == "assign" and (s.get("lhs") or {}).get("p"):
                    _places(s.get("lhs"), ps)
                if any(p["l"] == x for p in ps):
                    if x in (s.get("sunk") or []):
                        pos = -1
                    else:
                        pos = si
                    break
            if pos is None:
                ps = []
                _places({k: v for k, v in blk["term"].items() if k not in ("dest", "sp", "sunk")}, ps)
                if any(p["l"] == x for p in ps):
                    pos = -1 if x in (blk["term"].get("sunk") or []) else len(blk["stmts"])
            if pos is None or pos < 0:
                continue
            # separated from the assignments by a call with effects?
            back = {U}
            stb = [U]
            while stb:
                q = stb.pop()
                for p in preds.get(q, []):
                    if p not in back:
                        back.add(p)
                        stb.append(p)
            on_cycle = U in f.reach_from(f.succs(U))
            between = (from_defs & back) - region
            sep = False
            for q in between:
                if q == U and not on_cycle:
                    continue            # its terminator runs after the read
                tq = blocks[q]["term"]
                if tq.get("k") == "call" and not _is_pure_call(tq):
                    sep = True
                    break
            if not sep:
                _dbg(j["path"], d.get("name"), "read in", U, "not separated")
                continue
            # --- apply ------------------------------------------------------------------------------------------------
            base = len(blocks)
            order = sorted(region)
            m = {b: base + i for i, b in enumerate(order)}
            cont = base + len(order)
            # the temporaries of the copy are fresh locals (each keeps one definition, as compiler temporaries have);
            # the binding itself is assigned again
            fresh = {}
            for tl in sorted(temps):
                if tl != x:
                    fresh[tl] = len(locs)
                    locs.append(dict(locs[tl]))
            for b in order:
                blk0 = blocks[b]
                nb = {"stmts": [_rename(copy.deepcopy(blk0["stmts"][si]), fresh) for si in plan[b]], "sink_clone": b}
                if b in defk and defk[b][0] == "assign":
                    nb["term"] = {"k": "goto", "target": cont, "sp": blk0["term"].get("sp")}
                elif b in defk and defk[b][0] == "call":
                    nb["term"] = _rename(copy.deepcopy(blk0["term"]), fresh)
                    nb["term"]["target"] = cont
                else:
                    nb["term"] = _rename(_remap(blk0["term"], m), fresh)
                if blk0.get("inlined_from"):
                    nb["inlined_from"] = blk0["inlined_from"]
                blocks.append(nb)
            ub = blocks[U]
            rest = {"stmts": ub["stmts"][pos:], "term": ub["term"], "sink_clone": ub["sink_clone"] if isinstance(ub.get("sink_clone"), int) and ub["sink_clone"] >= 0 else -1 - U}
            if pos < len(ub["stmts"]):
                rest["stmts"][0] = dict(rest["stmts"][0], sunk=sorted(set(rest["stmts"][0].get("sunk") or []) | {x}))
            else:
                rest["term"] = dict(rest["term"], sunk=sorted(set(rest["term"].get("sunk") or []) | {x}))
            for k in ("inlined_from", "thread_clone"):
                if ub.get(k) is not None:
                    rest[k] = ub[k]
            blocks.append(rest)
            ub["stmts"] = ub["stmts"][:pos]
            ub["term"] = {"k": "goto", "target": m[D], "sp": (rest["stmts"][0].get("sp") if rest["stmts"] else rest["term"].get("sp"))}
            return True
    return False


def run(fn_jsons):
    """fn_jsons: path -> (json, crate); returns {path: number of reads rematerialised}"""
    out = {}
    for p, (j, crate) in fn_jsons.items():
        if crate not in ("findutils", "find", "xargs"):
            continue
        if not j.get("blocks"):
            continue
        try:
            n = run_function(j, crate)
        except Exception:
            n = 0
        if n:
            out[p] = n
    return out
