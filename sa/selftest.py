"""Rule-sensitivity self-test: apply each patch of the corpus (own mutants + independently seeded changes) to a
scratch copy of /repo's *current* tree and check that the named property's rules report a violation.
Scratch copies live under /tmp and are removed immediately. Never touches /repo."""
import json
import os
import shutil
import subprocess
import sys
import tempfile

from . import engine, facts

VERIF = facts.VERIF


def corpus(props=None):
    out = []
    sd = os.path.join(VERIF, "seeded")
    if os.path.isdir(sd):
        for name in sorted(os.listdir(sd)):
            d = os.path.join(sd, name)
            pf = os.path.join(d, "patch.diff")
            mf = os.path.join(d, "meta.json")
            if not (os.path.isfile(pf) and os.path.isfile(mf)):
                continue
            try:
                meta = json.load(open(mf))
            except Exception:
                continue
            if meta.get("status") == "rejected":
                continue
            prop = meta.get("property") or name[:3]
            if not (isinstance(prop, str) and len(prop) == 3 and prop[0] == "C" and prop[1:].isdigit()):
                prop = name[:3]          # (a meta file that spells the property out)
            detect = meta.get("detected_by_properties") or [prop]
            out.append({"name": "seeded/" + name, "patch": pf, "props": detect, "kind": "seeded", "primary": prop})
    md = os.path.join(VERIF, "mutants")
    if os.path.isdir(md):
        for p in sorted(os.listdir(md)):
            d = os.path.join(md, p)
            if not os.path.isdir(d):
                continue
            for f in sorted(os.listdir(d)):
                if f.endswith(".patch"):
                    exp = None
                    with open(os.path.join(d, f)) as fh:
                        for line in fh:
                            if line.startswith("# expect:"):
                                exp = line.split(":", 1)[1].strip()
                    out.append({"name": "mutants/%s/%s" % (p, f), "patch": os.path.join(d, f), "props": [p], "kind": "mutant", "primary": p, "expect_rule": exp})
    if props:
        out = [c for c in out if set(c["props"]) & set(props) or c["primary"] in props]
    # behaviour-preserving refactorings: every property must stay silent
    bd = os.path.join(VERIF, "benign")
    if os.path.isdir(bd):
        allp = sorted(f[:-3].upper() for f in os.listdir(os.path.join(VERIF, "sa", "rules")) if f.startswith("c") and f[1:3].isdigit() and f.endswith(".py"))
        for name in sorted(os.listdir(bd)):
            pf = os.path.join(bd, name, "patch.diff")
            if os.path.isfile(pf):
                out.append({"name": "benign/" + name, "patch": pf, "props": [p for p in allp if not props or p in props], "kind": "benign", "primary": "-"})
    return out


def make_scratch():
    d = tempfile.mkdtemp(prefix="vsel-", dir="/tmp")
    for f in ("Cargo.toml", "Cargo.lock"):
        shutil.copy(os.path.join(facts.REPO, f), os.path.join(d, f))
    shutil.copytree(os.path.join(facts.REPO, "src"), os.path.join(d, "src"))
    return d


def apply_patch(scratch, patch):
    r = subprocess.run(["patch", "-p1", "-F3", "--no-backup-if-mismatch", "-s", "-i", patch], cwd=scratch, capture_output=True, text=True)
    return r.returncode == 0, (r.stdout + r.stderr)[-500:]


def run_case(case, props=None):
    scratch = make_scratch()
    try:
        ok, msg = apply_patch(scratch, case["patch"])
        if not ok:
            return {"name": case["name"], "status": "patch-does-not-apply", "detail": msg}
        res = {}
        hits = []
        for p in (props or case["props"]):
            if not os.path.exists(os.path.join(VERIF, "sa", "rules", p.lower() + ".py")):
                continue
            old = sys.stdout
            sys.stdout = open(os.devnull, "w")
            try:
                rc, summ = engine.run_property(p, tier="quick", repo=scratch, write_evidence=False, quiet=True)
            finally:
                sys.stdout.close()
                sys.stdout = old
            if rc == 2:
                return {"name": case["name"], "status": "does-not-compile", "detail": summ.get("error", "")[-300:]}
            v = summ.get("violations", [])
            res[p] = [(o.rule, o.key) for o in v]
            if v:
                hits.append(p)
        status = "detected" if hits else "MISSED"
        if case.get("kind") == "benign":
            status = "FALSE-ALARM" if hits else "silent"
        if status == "detected" and case.get("expect_rule"):
            allr = {r for p in res for r, _ in res[p]}
            if case["expect_rule"] not in allr and not any(r.startswith(case["expect_rule"]) for r in allr):
                status = "detected-by-other-rule"
        return {"name": case["name"], "status": status, "by": {p: v[:4] for p, v in res.items() if v}}
    finally:
        shutil.rmtree(scratch, ignore_errors=True)


def run_all(props=None, all_props_for_seeded=False):
    results = []
    for c in corpus(props):
        r = run_case(c)
        results.append(r)
        print("%-28s %-24s %s" % (r["name"], r["status"], "; ".join("%s:%s" % (p, ",".join(sorted({x[0] for x in v}))) for p, v in r.get("by", {}).items()) or r.get("detail", "")))
        sys.stdout.flush()
    return results


def run_for(prop):
    """used by the thorough tier: sensitivity of this property's rules; never a property verdict"""
    rs = run_all([prop])
    missed = [r["name"] for r in rs if r["status"] == "MISSED"]
    path = os.path.join(engine.EVID, "%s.json" % prop)
    try:
        ev = json.load(open(path))
        ev["coverage"]["rule_sensitivity"] = {"cases": len(rs), "detected": len([r for r in rs if r["status"].startswith("detected")]),
                                              "missed": missed, "not_applicable": [r["name"] for r in rs if r["status"] in ("patch-does-not-apply", "does-not-compile")],
                                              "benign_silent": [r["name"] for r in rs if r["status"] == "silent"],
                                              "benign_false_alarm": [r["name"] for r in rs if r["status"] == "FALSE-ALARM"]}
        json.dump(ev, open(path, "w"), indent=1)
    except Exception:
        pass
    for m in missed:
        print("SELFTEST-MISS: %s is not detected by the %s rules (framework weakness, not a property verdict)" % (m, prop))
    for r in rs:
        if r["status"] == "FALSE-ALARM":
            print("SELFTEST-FALSE-ALARM: the behaviour-preserving refactoring %s makes the %s rules report %s (framework weakness, not a property verdict)" % (r["name"], prop, r.get("by")))
    return 0


def main(argv):
    props = [a for a in argv if a.startswith("C")]
    rs = run_all(props or None)
    n = len(rs)
    det = len([r for r in rs if r["status"].startswith("detected")])
    sil = len([r for r in rs if r["status"] == "silent"])
    fa = len([r for r in rs if r["status"] == "FALSE-ALARM"])
    miss = len([r for r in rs if r["status"] == "MISSED"])
    print("selftest: %d cases, %d detected, %d missed, %d benign silent, %d benign false alarms, %d not applicable" % (n, det, miss, sil, fa, n - det - miss - sil - fa))
    return 0
