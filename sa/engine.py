"""Check runner: obligations, floors, known findings, evidence and replay files."""
import importlib
import json
import os
import sys
import time
import traceback

from . import facts
from .model import Program

VERIF = facts.VERIF
EVID = os.path.join(VERIF, "evidence")
KNOWN = os.path.join(VERIF, "known_findings.json")


class Obligation:
    __slots__ = ("rule", "key", "ok", "where", "msg", "nontrivial", "how", "fn")

    def __init__(self, rule, key, ok, where, msg, nontrivial, how, fn):
        self.rule = rule
        self.key = key
        self.ok = ok
        self.where = where
        self.msg = msg
        self.nontrivial = nontrivial
        self.how = how
        self.fn = fn

    def to_json(self):
        return {"rule": self.rule, "key": self.key, "ok": self.ok, "where": self.where,
                "function": self.fn, "detail": self.msg, "discharged_by": self.how}


class Ctx:
    def __init__(self, prop, prog, tier):
        self.prop = prop
        self.prog = prog
        self.tier = tier
        self.obs = []
        self.notes = []
        self.rules_run = []
        self.analysed_fns = set()
        self._keys = {}

    # -- recording -----------------------------------------------------------------------
    def ob(self, rule, key, ok, msg, fn=None, where=None, how=None, nontrivial=True):
        """Record one obligation. `key` must not contain line numbers; duplicates get an ordinal."""
        rule = "%s.%s" % (self.prop, rule) if not rule.startswith(self.prop) else rule
        base = "%s|%s" % (rule, key)
        n = self._keys.get(base, 0)
        self._keys[base] = n + 1
        k = key if n == 0 else "%s#%d" % (key, n)
        fpath = None
        if fn is not None:
            fpath = fn.path
            self.analysed_fns.add(fn.path)
            if where is None:
                where = fn.loc()
        self.obs.append(Obligation(rule, k, bool(ok), where or "?", msg, nontrivial, how, fpath))
        return bool(ok)

    def floor(self, rule, what, count, minimum):
        """fail closed when fewer instances than counted by hand are found"""
        self.ob(rule, "floor:%s" % what, count >= minimum,
                "%s: found %d instance(s), floor %d%s" % (what, count, minimum, "" if count >= minimum else " — rule would pass vacuously; cannot decide"),
                how="instance count", nontrivial=False)

    def missing(self, rule, what):
        self.ob(rule, "anchor:%s" % what, False, "anchor not found: %s — cannot decide (fail closed)" % what)

    def fn(self, rule, path):
        f = self.prog.fns.get(path)
        if f is None:
            self.missing(rule, path)
            return None
        self.analysed_fns.add(path)
        return f

    def note(self, s):
        self.notes.append(s)


def load_known():
    if not os.path.exists(KNOWN):
        return {"findings": []}
    with open(KNOWN) as fh:
        return json.load(fh)


def run_property(prop, tier="quick", seed=0, repo=None, write_evidence=True, quiet=False):
    """Runs all rules of a property. Returns (exit_code, summary dict)."""
    t0 = time.time()
    try:
        factdir = facts.ensure_facts(repo or facts.REPO)
        prog = Program(factdir)
    except facts.FrameworkError as e:
        msg = str(e)
        # A tree that does not compile cannot satisfy anything; report as framework failure (exit 2)
        sys.stderr.write("FRAMEWORK-ERROR: %s\n" % msg)
        return 2, {"error": msg}
    mod = importlib.import_module("sa.rules.%s" % prop.lower())
    known = load_known()
    open_keys = {}
    for k in known.get("findings", []):
        if k.get("property") == prop and k.get("status") == "open":
            open_keys[(k["rule"], k["key"])] = k

    def evaluate(program):
        c = Ctx(prop, program, tier)
        try:
            mod.run(c)
        except Exception:
            tb = traceback.format_exc()
            c.ob("R0", "rule-engine-exception", False, "rule module raised an exception (fail closed):\n" + tb)
        viol, hits = [], []
        for o in c.obs:
            if o.ok:
                continue
            kf = open_keys.get((o.rule, o.key))
            if kf is not None:
                hits.append((o, kf))
            else:
                viol.append(o)
        return c, viol, hits
    ctx, violations, known_hits = evaluate(prog)
    form = "as written"
    if violations:
        # second normal form: Option/Result/bool combinators written out as the match they abbreviate (sa/desugar.py).
        # Both forms are faithful to the program; rules that are satisfied on either one hold for the program.
        # An obligation (rule, key) is a claim about the program; it is discharged when the rule proves it on either form.
        try:
            prog2 = Program(factdir, desugar=True)
            ctx2, violations2, known_hits2 = evaluate(prog2)
            ok2 = {(o.rule, o.key) for o in ctx2.obs if o.ok}
            bad2 = {(o.rule, o.key) for o in ctx2.obs if not o.ok}
            waived = [o for o in violations if (o.rule, o.key) in ok2 and (o.rule, o.key) not in bad2]
            if waived:
                for o in waived:
                    o.ok = True
                    o.how = (o.how or "") + " [on the combinator-free normal form]"
                violations = [o for o in violations if not o.ok]
                ctx.note("%d obligation(s) undecided on the form as written were discharged on the combinator-free normal form (sa/desugar.py): %s" % (len(waived), ", ".join("%s[%s]" % (o.rule, o.key[:60]) for o in waived[:12])))
                form = "as written + combinators desugared"
        except Exception:
            pass
    # stale known findings (listed but no longer reported) are only noted
    hit_keys = {(o.rule, o.key) for o, _ in known_hits}
    stale = [k for kk, k in open_keys.items() if kk not in hit_keys]

    out = sys.stdout
    for o, kf in known_hits:
        out.write("KNOWN-FINDING: property=%s %s [%s] %s — %s\n" % (prop, o.rule, o.key, o.where, kf.get("what_fails", o.msg)))
    replay_path = None
    if not violations and write_evidence:
        # a replay file describes the violation of the run that wrote it: none left behind by a clean run
        try:
            os.remove(os.path.join(EVID, "replay", "%s.json" % prop))
        except OSError:
            pass
    if violations:
        # (runs on scratch trees — the self-test corpus — keep their replay files apart from those of the checked tree)
        rdir = os.path.join(EVID, "replay") if write_evidence else os.path.join(os.path.dirname(EVID), ".work", "replay")
        os.makedirs(rdir, exist_ok=True)
        replay_path = os.path.join(rdir, "%s.json" % prop)
        with open(replay_path, "w") as fh:
            json.dump({"property": prop, "tier": tier, "tree": os.path.basename(factdir),
                       "violations": [o.to_json() for o in violations]}, fh, indent=1)
        out.write("VIOLATION property=%s replay=%s\n" % (prop, replay_path))
        for o in violations:
            out.write("  %s [%s] %s %s\n      %s\n" % (o.rule, o.key, o.where, o.fn or "", o.msg.replace("\n", "\n      ")))
    wall = time.time() - t0
    n_ob = len(ctx.obs)
    n_ok = sum(1 for o in ctx.obs if o.ok)
    nontriv = len({(o.rule, o.key) for o in ctx.obs if o.nontrivial})
    samples = []
    seen_rules = set()
    for o in ctx.obs:
        if o.rule not in seen_rules or (not o.ok):
            seen_rules.add(o.rule)
            samples.append(o.to_json())
        if len(samples) >= 40:
            break
    rules = sorted({o.rule for o in ctx.obs})
    per_rule = {r: {"obligations": sum(1 for o in ctx.obs if o.rule == r),
                    "discharged": sum(1 for o in ctx.obs if o.rule == r and o.ok)} for r in rules}
    n_calls = 0
    n_blocks = 0
    for p in ctx.analysed_fns:
        f = prog.fns.get(p)
        if f is not None:
            n_calls += len(f.calls())
            n_blocks += len(f.blocks)
    meta = getattr(mod, "META", {})
    ev = {
        "property_id": prop,
        "tier": tier,
        "seed": int(seed),
        "level": "other",
        "coverage": {
            "explanation": meta.get("explanation", "static rules over the type-checked MIR of /repo"),
            "decides": meta.get("decides", ""),
            "does_not_decide": meta.get("does_not_decide", ""),
            "rule": "one obligation per rule instance (site, table row, path class); non-trivial = needed a dominance/path/table/provenance argument (not a floor or anchor lookup); distinct by (rule,key)",
            "evaluations": n_ob,
            "distinct_nontrivial": nontriv,
            "obligations": n_ob,
            "discharged": n_ok,
            "known_findings": [{"rule": o.rule, "key": o.key, "where": o.where} for o, _ in known_hits],
            "per_rule": per_rule,
            "samples": samples,
            "analysed": {
                "units": sorted(prog.crates.keys()),
                "functions_in_program": len(prog.fns),
                "functions_touched_by_rules": len(ctx.analysed_fns),
                "basic_blocks_in_touched_functions": n_blocks,
                "call_sites_in_touched_functions": n_calls,
                "tree_key": os.path.basename(factdir),
            },
            "exhaustive": True,
            "checker_cmd": "./vcheck %s --tier %s" % (prop, tier),
            "trusted_base": ["rustc MIR construction and type resolution (nightly)", "dependency crates behave as their pinned source says (contracts W1-W4, O1-O3, K1, S1, S2, A1, C1 cited in the rules and listed in DESIGN.md section A)", "linux/x86-64 cfg only"],
            "notes": ctx.notes,
            "stale_known_findings": [k["key"] for k in stale],
        },
        "assumptions": meta.get("assumptions", []) + ["MIR at -Zmir-opt-level=0 faithfully represents the source", "unwind edges ignored (a panic is a violation of C11/C19, checked there)"],
        "wall_s": round(wall, 3),
        "violations": len(violations),
    }
    if write_evidence:
        os.makedirs(EVID, exist_ok=True)
        with open(os.path.join(EVID, "%s.json" % prop), "w") as fh:
            json.dump(ev, fh, indent=1)
    if not quiet:
        out.write("%s: %d obligations, %d discharged, %d known finding(s), %d violation(s), %.1fs [%s]\n" % (
            prop, n_ob, n_ok, len(known_hits), len(violations), wall, tier))
    return (1 if violations else 0), {"violations": violations, "known": known_hits, "ctx": ctx, "evidence": ev}
