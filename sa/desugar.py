"""Second normal form of the model: Option/Result/bool combinators written out as the `match` they abbreviate.

`opt.map(|v| e)`, `res.map_err(f)`, `x.map_or(d, |v| e)`, `x.map_or_else(..)`, `x.unwrap_or_else(..)`, `x.unwrap_or(d)`,
`x.is_some_and(..)`/`is_ok_and`, `x.and_then(..)`, `opt.ok_or(e)`/`ok_or_else`, `res.ok()`, `b.then(..)`/`then_some(v)`
are replaced, at the level of the MIR model, by a discriminant switch whose arms build the result; a closure argument is
spliced in (its captured variables replaced by the captured places), a function item becomes a call. A tree in which a
maintainer replaced a `match` by the combinator clippy suggests (or a hand-written `if let` by `map_or`) has the same
shape in this form as before the edit.

The engine runs a property on the model as written first; only when that reports something it runs the property again
on this form and accepts the verdict if the rules are satisfied here (both forms are faithful to the program; a rule
that holds on a faithful form holds for the program). Sites the templates do not cover stay ordinary calls."""
import copy

from . import inline

OPTION = "std::option::Option"
RESULT = "std::result::Result"


class _Ctx:
    def __init__(self, cj, fn_jsons):
        self.cj = cj
        self.fn_jsons = fn_jsons

    def new_local(self, ty, name=None):
        l = {"ty": ty, "mut": True, "desugared": True}
        if name:
            l["name"] = name
        self.cj["body"]["locals"].append(l)
        return len(self.cj["body"]["locals"]) - 1

    def new_block(self, stmts, term, chain=None):
        b = {"stmts": stmts, "term": term, "desugared": True}
        if chain:
            b["inl_chain"] = list(chain)
        self.cj["blocks"].append(b)
        return len(self.cj["blocks"]) - 1

    def ty(self, l):
        return self.cj["body"]["locals"][l]["ty"]


def _assign(lhs, rv, sp):
    return {"k": "assign", "lhs": lhs, "rv": rv, "sp": sp}


def _use(op):
    return {"k": "use", "a": op}


def _agg(adt, variant, vidx, ops):
    return {"k": "agg", "ak": "adt", "adt": adt, "variant": variant, "vidx": vidx, "fields": ["0"] if ops else [], "ops": ops}


def _const_bool(v):
    return {"const": {"ty": "bool", "text": "const %s" % ("true" if v else "false"), "k": "bool", "v": bool(v)}}


def _payload(recv_local, rty, vidx, vname, pty="?"):
    return {"l": recv_local, "p": [{"v": vidx, "vn": vname}, {"f": 0, "n": "0", "of": rty, "ty": pty}]}


def _single_def_stmt(cj, local):
    found = []
    for b in cj["blocks"]:
        for s in b["stmts"]:
            lhs = s.get("lhs")
            if isinstance(lhs, dict) and lhs.get("l") == local and not lhs.get("p"):
                found.append(s)
        d = b["term"].get("dest")
        if isinstance(d, dict) and d.get("l") == local and not d.get("p"):
            found.append(None)
    return found[0] if len(found) == 1 else None


def _callable(ctx, op):
    """describe a function-valued operand: ('closure', fn json, capture operands, closure local) / ('fn', const json)"""
    if "const" in op and op["const"].get("k") == "fn":
        return ("fn", op["const"])
    pl = op.get("move") or op.get("copy")
    if not pl or pl.get("p"):
        return None
    s = _single_def_stmt(ctx.cj, pl["l"])
    if s is None:
        return None
    rv = s.get("rv", {})
    if rv.get("k") == "agg" and rv.get("ak") == "closure" and rv.get("def") in ctx.fn_jsons:
        return ("closure", ctx.fn_jsons[rv["def"]][0], rv.get("ops", []), pl["l"])
    return None


def _apply(ctx, f, value_ops, ret_ty, cont, sp, chain, unwind):
    """blocks computing ret = f(value_ops...) and jumping to `cont`; returns (entry block, ret local) or None"""
    ret = ctx.new_local(ret_ty)
    if f[0] == "fn":
        c = f[1]
        term = {"k": "call", "src": "Normal", "callee": c.get("def"), "callee_inst": c.get("inst") or c.get("text") or c.get("def"),
                "callee_name": (c.get("def") or "").rsplit("::", 1)[-1], "resolved": c.get("def"), "resolved_kind": "item",
                "args": value_ops, "dest": {"l": ret}, "target": cont, "unwind": unwind, "sp": sp, "fn_sp": sp}
        return ctx.new_block([], term, chain), ret
    _, kj, caps, clocal = f
    nparams = kj["body"]["arg_count"] - 1
    if nparams != len(value_ops) or len(kj["blocks"]) > inline.MAX_BLOCKS or kj["path"] in (chain or []):
        return None
    cj = ctx.cj
    nl0 = len(cj["body"]["locals"])
    nb0 = len(cj["blocks"]) + 1                    # the entry block (parameter assignments) comes first
    lm = lambda l: l + nl0
    bm = lambda b: b + nb0
    env_ty = kj["body"]["locals"][1]["ty"] if len(kj["body"]["locals"]) > 1 else ""
    by_ref = env_ty.startswith("&")
    tag = kj["path"].rsplit("::", 1)[-1]
    for i, l in enumerate(kj["body"]["locals"]):
        nl = dict(l)
        if nl.get("name"):
            nl["name"] = "%s::%s" % (tag, nl["name"])
        nl["inlined_from"] = kj["path"]
        cj["body"]["locals"].append(nl)

    def remap_place(j):
        proj = [({"idx": lm(e["idx"])} if isinstance(e, dict) and set(e) == {"idx"} else copy.deepcopy(e)) for e in j.get("p", [])]
        if j["l"] == 1:
            p = list(proj)
            if by_ref:
                if not p or p[0] != "*":
                    return None
                p = p[1:]
            if not p or not (isinstance(p[0], dict) and "f" in p[0]):
                return None
            i = p[0]["f"]
            if i >= len(caps):
                return None
            cap = caps[i]
            cpl = cap.get("move") or cap.get("copy")
            if cpl is None:
                return None
            return {"l": cpl["l"], "p": list(copy.deepcopy(cpl.get("p", []))) + p[1:]}
        out = {"l": lm(j["l"])}
        if "p" in j:
            out["p"] = proj
        return out

    bad = []

    def remap(j):
        if isinstance(j, list):
            return [remap(x) for x in j]
        if isinstance(j, dict):
            if inline._is_place(j):
                r = remap_place(j)
                if r is None:
                    bad.append(j)
                    return {"l": lm(j["l"])}
                return r
            return {k: remap(v) for k, v in j.items()}
        return j
    new_blocks = []
    for kb in kj["blocks"]:
        nb = remap(kb)
        t = nb["term"]
        inline._remap_term_blocks(t, bm)
        if t["k"] == "return":
            nb["stmts"].append(_assign({"l": ret}, _use({"move": {"l": lm(0)}}), t.get("sp", sp)))
            nb["term"] = {"k": "goto", "target": cont, "sp": t.get("sp", sp)}
        elif t["k"] == "resume" and isinstance(unwind, int):
            nb["term"] = {"k": "goto", "target": unwind, "sp": t.get("sp", sp)}
        nb["inlined_from"] = kj["path"]
        nb["inl_chain"] = list(chain or []) + [kj["path"]]
        new_blocks.append(nb)
    if bad:
        # an environment access the substitution does not understand: give up on this site (locals stay, harmless)
        return None
    entry_stmts = [_assign({"l": lm(i + 2)}, _use(copy.deepcopy(op)), sp) for i, op in enumerate(value_ops)]
    entry = ctx.new_block(entry_stmts, {"k": "goto", "target": bm(0), "sp": sp}, chain)
    assert entry == nb0 - 1
    cj["blocks"].extend(new_blocks)
    return entry, ret


def _kind_of(ty):
    t = ty.strip()
    if t.startswith(OPTION + "<") or t == OPTION:
        return "option"
    if t.startswith(RESULT + "<") or t == RESULT:
        return "result"
    return None


def _rewrite_mem(ctx, blk, t, name):
    """`let old = std::mem::take(&mut x);` / `mem::replace(&mut x, v)` on a bool, an integer or an Option written out as the
    read and the write they are (`old = x; x = false|0|None|v`): a test-and-reset of a flag is then a test and a reset"""
    args = t.get("args", [])
    if len(args) != (1 if name == "take" else 2):
        return False
    r = (args[0].get("move") or args[0].get("copy")) if isinstance(args[0], dict) else None
    if not isinstance(r, dict) or r.get("p"):
        return False
    # the reference must be made in this block, for this call only
    idx = [i for i, s_ in enumerate(blk["stmts"]) if s_.get("k") == "assign" and (s_.get("lhs") or {}).get("l") == r["l"] and not (s_.get("lhs") or {}).get("p")]
    if len(idx) != 1:
        return False
    rv = blk["stmts"][idx[0]].get("rv") or {}
    if rv.get("k") != "ref" or rv.get("bk") == "shared" or not isinstance(rv.get("p"), dict):
        return False
    uses = 0
    for b2 in ctx.cj["blocks"]:
        for s2 in b2["stmts"]:
            if ("\"l\": %d}" % r["l"]) in __import__("json").dumps(s2.get("rv", {})) or ("\"l\": %d," % r["l"]) in __import__("json").dumps(s2.get("rv", {})):
                uses += 1
    place = rv["p"]
    drop_idx = [idx[0]]
    # a reborrow (`&mut *r` with `r = &mut x` made just before): write through to x itself
    for _ in range(3):
        if place.get("p") == ["*"]:
            i2 = [i for i, s_ in enumerate(blk["stmts"]) if s_.get("k") == "assign" and (s_.get("lhs") or {}).get("l") == place["l"] and not (s_.get("lhs") or {}).get("p")]
            rv2 = (blk["stmts"][i2[0]].get("rv") or {}) if len(i2) == 1 else {}
            if rv2.get("k") == "ref" and rv2.get("bk") != "shared" and isinstance(rv2.get("p"), dict):
                place = rv2["p"]
                drop_idx.append(i2[0])
                continue
        break
    dty = ctx.ty(t["dest"]["l"])
    sp = t.get("sp")
    if name == "take":
        if dty == "bool":
            newv = _use(_const_bool(False))
        elif dty in ("usize", "u8", "u16", "u32", "u64", "i8", "i16", "i32", "i64", "isize"):
            newv = _use({"const": {"ty": dty, "text": "0_%s" % dty, "k": "int", "v": 0}})
        elif dty.startswith(OPTION + "<"):
            newv = _agg(OPTION, "None", 0, [])
        else:
            return False
    else:
        if not (dty == "bool" or dty in ("usize", "u8", "u16", "u32", "u64", "i8", "i16", "i32", "i64", "isize") or dty.startswith(OPTION + "<")):
            return False
        newv = _use(copy.deepcopy(args[1]))
    if uses > 0:
        return False
    for i_ in sorted(drop_idx, reverse=True):
        del blk["stmts"][i_]
    blk["stmts"].append(_assign(copy.deepcopy(t["dest"]), _use({"copy": copy.deepcopy(place)}), sp))
    blk["stmts"].append(_assign(copy.deepcopy(place), newv, sp))
    blk["term"] = {"k": "goto", "target": t["target"], "sp": sp, "desugared_call": "mem::" + name}
    return True


def _rewrite(ctx, bi):
    cj = ctx.cj
    blk = cj["blocks"][bi]
    t = blk["term"]
    name = t.get("callee_name")
    callee = t.get("callee") or ""
    if t.get("target") is None or not isinstance(t.get("dest"), dict) or t["dest"].get("p"):
        return False
    if name in ("take", "replace") and callee.startswith(("std::mem::", "core::mem::")):
        return _rewrite_mem(ctx, blk, t, name)
    fam = "option" if callee.startswith(OPTION + "::") else "result" if callee.startswith(RESULT + "::") else "bool" if "<impl bool>::" in callee or callee.startswith("core::bool::") else None
    if fam is None:
        return False
    args = t.get("args", [])
    sp = t.get("sp")
    chain = blk.get("inl_chain", [])
    dest = t["dest"]
    cont = t["target"]
    unwind = t.get("unwind")
    dty = ctx.ty(dest["l"])
    unreachable = None

    def unreach():
        nonlocal unreachable
        if unreachable is None:
            unreachable = ctx.new_block([], {"k": "unreachable", "sp": sp}, chain)
        return unreachable

    def ret_block(rv):
        return ctx.new_block([_assign(copy.deepcopy(dest), rv, sp)], {"k": "goto", "target": cont, "sp": sp}, chain)

    def switch_on(place, arm0, arm1):
        d = ctx.new_local("isize")
        blk["stmts"].append(_assign({"l": d}, {"k": "discr", "p": place}, sp))
        blk["term"] = {"k": "switch", "discr": {"move": {"l": d}}, "discr_ty": "isize", "arms": [[0, arm0], [1, arm1]], "otherwise": unreach(), "sp": sp, "desugared_call": name}

    if fam == "bool":
        if name not in ("then", "then_some") or len(args) != 2:
            return False
        none_b = ret_block(_agg(OPTION, "None", 0, []))
        if name == "then_some":
            some_b = ret_block(_agg(OPTION, "Some", 1, [copy.deepcopy(args[1])]))
        else:
            f = _callable(ctx, args[1])
            if f is None:
                return False
            some_fin = ret_block(None)
            ap = _apply(ctx, f, [], "?", some_fin, sp, chain, unwind)
            if ap is None:
                return False
            cj["blocks"][some_fin]["stmts"][0]["rv"] = _agg(OPTION, "Some", 1, [{"move": {"l": ap[1]}}])
            some_b = ap[0]
        cond = args[0]
        blk["term"] = {"k": "switch", "discr": copy.deepcopy(cond), "discr_ty": "bool", "arms": [[0, none_b]], "otherwise": some_b, "sp": sp, "desugared_call": name}
        return True

    r = args[0].get("move") or args[0].get("copy") if args else None
    if not r or r.get("p"):
        return False
    rl = r["l"]
    rty = ctx.ty(rl)
    if _kind_of(rty) != fam:
        return False
    if fam == "option":
        neg = (0, "None")
        pos = (1, "Some")
    else:
        pos = (0, "Ok")
        neg = (1, "Err")
    ppay = {"move": _payload(rl, rty, pos[0], pos[1])}
    npay = {"move": _payload(rl, rty, neg[0], neg[1])} if fam == "result" else None
    dk = _kind_of(dty)
    dadt = OPTION if dk == "option" else RESULT

    def arms(pos_b, neg_b):
        a0, a1 = (neg_b, pos_b) if fam == "option" else (pos_b, neg_b)
        switch_on({"l": rl}, a0, a1)

    def applied(fop, vals, wrap=None):
        """block chain: ret = f(vals); dest = wrap(ret) or ret; goto cont"""
        f = _callable(ctx, fop)
        if f is None:
            return None
        fin = ret_block(None)
        ap = _apply(ctx, f, vals, "?", fin, sp, chain, unwind)
        if ap is None:
            return None
        res = {"move": {"l": ap[1]}}
        cj["blocks"][fin]["stmts"][0]["rv"] = wrap(res) if wrap else _use(res)
        return ap[0]

    some = lambda op: _agg(OPTION, "Some", 1, [op])
    none = lambda: _agg(OPTION, "None", 0, [])
    ok = lambda op: _agg(RESULT, "Ok", 0, [op])
    err = lambda op: _agg(RESULT, "Err", 1, [op])
    n = name
    if n == "map" and len(args) == 2:
        pb = applied(args[1], [ppay], some if fam == "option" else ok)
        if pb is None:
            return False
        nb = ret_block(none() if fam == "option" else err(npay))
        arms(pb, nb)
        return True
    if n == "map_err" and fam == "result" and len(args) == 2:
        nb = applied(args[1], [npay], err)
        if nb is None:
            return False
        arms(ret_block(ok(ppay)), nb)
        return True
    if n == "map_or" and len(args) == 3:
        pb = applied(args[2], [ppay])
        if pb is None:
            return False
        arms(pb, ret_block(_use(copy.deepcopy(args[1]))))
        return True
    if n == "map_or_else" and len(args) == 3:
        pb = applied(args[2], [ppay])
        nb = applied(args[1], [] if fam == "option" else [npay]) if pb is not None else None
        if pb is None or nb is None:
            return False
        arms(pb, nb)
        return True
    if n == "unwrap_or_else" and len(args) == 2:
        nb = applied(args[1], [] if fam == "option" else [npay])
        if nb is None:
            return False
        arms(ret_block(_use(ppay)), nb)
        return True
    if n == "unwrap_or" and len(args) == 2:
        arms(ret_block(_use(ppay)), ret_block(_use(copy.deepcopy(args[1]))))
        return True
    if n in ("is_some_and", "is_ok_and") and len(args) == 2:
        pb = applied(args[1], [ppay])
        if pb is None:
            return False
        arms(pb, ret_block(_use(_const_bool(False))))
        return True
    if n == "and_then" and len(args) == 2:
        pb = applied(args[1], [ppay])
        if pb is None:
            return False
        arms(pb, ret_block(none() if fam == "option" else err(npay)))
        return True
    if n == "ok_or" and fam == "option" and len(args) == 2:
        arms(ret_block(ok(ppay)), ret_block(err(copy.deepcopy(args[1]))))
        return True
    if n == "ok_or_else" and fam == "option" and len(args) == 2:
        nb = applied(args[1], [], err)
        if nb is None:
            return False
        arms(ret_block(ok(ppay)), nb)
        return True
    if n == "ok" and fam == "result" and len(args) == 1:
        arms(ret_block(some(ppay)), ret_block(none()))
        return True
    if n == "err" and fam == "result" and len(args) == 1:
        arms(ret_block(none()), ret_block(some(npay)))
        return True
    return False


def run(fn_jsons, crates=("findutils", "find", "xargs"), max_passes=4):
    """desugar combinator calls in every crate function (in place); returns {function: count}"""
    done = {}
    for _ in range(max_passes):
        changed = False
        for p, (cj, c) in fn_jsons.items():
            if c not in crates or "::tests::" in p:
                continue
            ctx = _Ctx(cj, fn_jsons)
            bi = 0
            while bi < len(cj["blocks"]) and len(cj["blocks"]) < 30000:
                t = cj["blocks"][bi]["term"]
                if t.get("k") == "call" and len(cj["blocks"][bi].get("inl_chain", [])) < 6:
                    try:
                        if _rewrite(ctx, bi):
                            done[p] = done.get(p, 0) + 1
                            changed = True
                    except (KeyError, IndexError, TypeError, AssertionError):
                        pass
                bi += 1
        if not changed:
            break
    return done
