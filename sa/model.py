"""In-memory program model over the fact files: functions, CFG, dominators, call graph, pretty-printer."""
import json
import os
from collections import defaultdict


class Place:
    __slots__ = ("local", "proj")

    def __init__(self, j):
        self.local = j["l"]
        self.proj = j.get("p", [])

    def is_local(self):
        return not self.proj

    def field_names(self):
        return [e.get("n") for e in self.proj if isinstance(e, dict) and "f" in e]

    def key(self):
        """hashable structural key"""
        out = [self.local]
        for e in self.proj:
            if e == "*":
                out.append("*")
            elif isinstance(e, dict):
                if "f" in e:
                    out.append(("f", e["f"]))
                elif "idx" in e:
                    out.append(("idx", e["idx"]))
                elif "v" in e:
                    out.append(("v", e["v"]))
                elif "cidx" in e:
                    out.append(("cidx", e["cidx"], e["from_end"]))
                else:
                    out.append(("sub", e.get("sub_from"), e.get("sub_to"), e.get("from_end")))
            else:
                out.append(e)
        return tuple(out)

    def fmt(self, fn=None):
        s = "_%d" % self.local
        if fn is not None:
            nm = fn.locals[self.local].get("name")
            if nm:
                s = "%s(_%d)" % (nm, self.local)
        for e in self.proj:
            if e == "*":
                s = "(*%s)" % s
            elif isinstance(e, dict):
                if "f" in e:
                    s += "." + (e.get("n") or str(e["f"]))
                elif "idx" in e:
                    s += "[_%d]" % e["idx"]
                elif "v" in e:
                    s = "(%s as %s)" % (s, e.get("vn", e["v"]))
                elif "cidx" in e:
                    s += "[%s%d]" % ("-" if e["from_end"] else "", e["cidx"])
                else:
                    s += "[%s..%s]" % (e.get("sub_from"), e.get("sub_to"))
            else:
                s += "<%s>" % e
        return s


class Operand:
    __slots__ = ("kind", "place", "const")

    def __init__(self, j):
        if "copy" in j:
            self.kind = "copy"
            self.place = Place(j["copy"])
            self.const = None
        elif "move" in j:
            self.kind = "move"
            self.place = Place(j["move"])
            self.const = None
        elif "const" in j:
            self.kind = "const"
            self.place = None
            self.const = j["const"]
        else:
            self.kind = "other"
            self.place = None
            self.const = {"k": "other", "text": j.get("other", "")}

    def is_const(self):
        return self.kind in ("const", "other")

    def const_value(self):
        """python value for int/bool/char/str constants, else None"""
        if self.kind != "const":
            return None
        c = self.const
        if c.get("k") in ("int", "bool", "str", "scalar"):
            return c.get("v")
        if c.get("k") == "char":
            return c.get("ch")
        return None

    def fn_def(self):
        if self.kind == "const" and self.const.get("k") == "fn":
            return self.const.get("def")
        return None

    def fmt(self, fn=None):
        if self.place is not None:
            return ("move " if self.kind == "move" else "") + self.place.fmt(fn)
        c = self.const
        k = c.get("k")
        if k == "str":
            return "const %r" % c.get("v")
        if k in ("int", "bool", "scalar"):
            return "const %s_%s" % (c.get("v"), c.get("ty"))
        if k == "char":
            return "const %r" % c.get("ch")
        if k == "fn":
            return "fn %s" % c.get("inst")
        return "const{%s}" % c.get("text", k)


class Rvalue:
    __slots__ = ("j", "k", "ops", "place")

    def __init__(self, j):
        self.j = j
        self.k = j["k"]
        self.ops = []
        self.place = None
        if "a" in j:
            self.ops.append(Operand(j["a"]))
        if "b" in j:
            self.ops.append(Operand(j["b"]))
        if "ops" in j:
            self.ops = [Operand(x) for x in j["ops"]]
        if "p" in j:
            self.place = Place(j["p"])

    def fmt(self, fn=None):
        j = self.j
        k = self.k
        if k == "use":
            return self.ops[0].fmt(fn)
        if k == "ref":
            return "&%s%s" % ("mut " if j["bk"] == "mut" else ("fake " if j["bk"] == "fake" else ""), self.place.fmt(fn))
        if k == "rawptr":
            return "&raw %s" % self.place.fmt(fn)
        if k == "cast":
            return "%s as %s (%s)" % (self.ops[0].fmt(fn), j["ty"], j["ck"])
        if k == "bin":
            return "%s(%s, %s)" % (j["op"], self.ops[0].fmt(fn), self.ops[1].fmt(fn))
        if k == "un":
            return "%s(%s)" % (j["op"], self.ops[0].fmt(fn))
        if k == "discr":
            return "discriminant(%s)" % self.place.fmt(fn)
        if k == "agg":
            ak = j["ak"]
            if ak == "adt":
                nm = "%s::%s" % (j["adt"], j["variant"])
            elif ak in ("closure", "coroutine"):
                nm = "closure %s" % j["def"]
            else:
                nm = ak
            return "%s{%s}" % (nm, ", ".join(o.fmt(fn) for o in self.ops))
        if k == "copy_for_deref":
            return "deref_copy %s" % self.place.fmt(fn)
        if k == "repeat":
            return "[%s; %s]" % (self.ops[0].fmt(fn), j.get("n"))
        return j.get("text", k)


class Stmt:
    __slots__ = ("j", "k", "lhs", "rv", "sp")

    def __init__(self, j):
        self.j = j
        self.k = j["k"]
        self.sp = j.get("sp", {})
        self.lhs = Place(j["lhs"]) if "lhs" in j else None
        self.rv = Rvalue(j["rv"]) if "rv" in j else None

    def fmt(self, fn=None):
        if self.k == "assign":
            return "%s = %s" % (self.lhs.fmt(fn), self.rv.fmt(fn))
        if self.k == "setdiscr":
            return "discriminant(%s) = %s" % (self.lhs.fmt(fn), self.j["v"])
        return self.j.get("text", self.k)


class Term:
    __slots__ = ("j", "k", "sp", "args", "dest", "discr", "callee", "resolved", "target", "unwind")

    def __init__(self, j):
        self.j = j
        self.k = j["k"]
        self.sp = j.get("sp", {})
        self.args = [Operand(a) for a in j.get("args", [])]
        self.dest = Place(j["dest"]) if "dest" in j else None
        self.discr = Operand(j["discr"]) if "discr" in j else None
        self.callee = j.get("callee")
        self.resolved = j.get("resolved")
        self.target = j.get("target")
        self.unwind = j.get("unwind")

    def successors(self, with_unwind=False):
        k = self.k
        out = []
        if k == "goto":
            out = [self.target]
        elif k == "switch":
            out = [bb for _, bb in self.j["arms"]] + ([] if self.j.get("otherwise_dead") else [self.j["otherwise"]])
        elif k in ("drop", "assert"):
            out = [self.target]
        elif k == "call":
            if self.target is not None:
                out = [self.target]
        if with_unwind and self.unwind is not None:
            out = out + [self.unwind]
        # dedupe, keep order
        seen = []
        for b in out:
            if b not in seen:
                seen.append(b)
        return seen

    def fmt(self, fn=None):
        k = self.k
        j = self.j
        if k == "goto":
            return "goto bb%d" % self.target
        if k == "switch":
            arms = ", ".join("%s→bb%d" % (v, bb) for v, bb in j["arms"])
            return "switch(%s) [%s, else→bb%d]" % (self.discr.fmt(fn), arms, j["otherwise"])
        if k == "call":
            callee = j.get("callee_inst") or ("(*%s)" % Operand(j["callee_indirect"]).fmt(fn))
            res = ""
            if self.resolved and self.resolved != self.callee:
                res = " ⇒%s" % self.resolved
            if j.get("resolved_kind") == "virtual":
                res = " ⇒dyn"
            return "%s = %s(%s)%s → %s" % (
                self.dest.fmt(fn), callee, ", ".join(a.fmt(fn) for a in self.args), res,
                ("bb%d" % self.target) if self.target is not None else "!")
        if k == "assert":
            m = j["msg"]
            return "assert(%s == %s, %s) → bb%d" % (Operand(j["cond"]).fmt(fn), j["expected"], m.get("k"), self.target)
        if k == "drop":
            return "drop(%s) → bb%d" % (Place(j["p"]).fmt(fn), self.target)
        return k


class Block:
    __slots__ = ("idx", "stmts", "term", "cleanup")

    def __init__(self, idx, j):
        self.idx = idx
        self.stmts = [Stmt(s) for s in j["stmts"]]
        self.term = Term(j["term"])
        self.cleanup = j.get("cleanup", False)


class Function:
    def __init__(self, j, crate):
        self.j = j
        self.crate = crate
        self.path = j["path"]
        self.name = j.get("name")
        self.def_kind = j["def_kind"]
        self.impl_self = j.get("impl_self")
        self.impl_self_adt = j.get("impl_self_adt")
        self.impl_trait = j.get("impl_trait")
        self.closure_of = j.get("closure_of")
        self.sp = j.get("sp", {})
        self.sig = j.get("sig")
        self.locals = j["body"]["locals"]
        self.arg_count = j["body"]["arg_count"]
        self.upvar_names = j["body"].get("upvar_names", [])
        self.blocks = [Block(i, b) for i, b in enumerate(j["blocks"])]
        self.promoted = j.get("promoted", [])
        self._preds = None
        self._dom = None
        self._reach = None

    # ---- CFG (normal edges only unless stated) ----
    def succs(self, b, with_unwind=False):
        return self.blocks[b].term.successors(with_unwind)

    def preds(self):
        if self._preds is None:
            p = defaultdict(list)
            for b in self.blocks:
                for s in b.term.successors():
                    p[s].append(b.idx)
            self._preds = p
        return self._preds

    def reachable(self):
        """blocks reachable from entry through normal edges"""
        if self._reach is None:
            seen = {0}
            st = [0]
            while st:
                b = st.pop()
                for s in self.succs(b):
                    if s not in seen:
                        seen.add(s)
                        st.append(s)
            self._reach = seen
        return self._reach

    def reach_from(self, starts, avoid=()):
        avoid = set(avoid)
        seen = set()
        st = [s for s in starts if s not in avoid]
        seen.update(st)
        while st:
            b = st.pop()
            for s in self.succs(b):
                if s not in seen and s not in avoid:
                    seen.add(s)
                    st.append(s)
        return seen

    def dominators(self):
        """immediate dominator map over reachable blocks (Cooper-Harvey-Kennedy)"""
        if self._dom is not None:
            return self._dom
        order = []
        seen = set()

        def dfs(start):
            stack = [(start, iter(self.succs(start)))]
            seen.add(start)
            while stack:
                b, it = stack[-1]
                adv = False
                for s in it:
                    if s not in seen:
                        seen.add(s)
                        stack.append((s, iter(self.succs(s))))
                        adv = True
                        break
                if not adv:
                    order.append(b)
                    stack.pop()

        dfs(0)
        rpo = list(reversed(order))
        num = {b: i for i, b in enumerate(rpo)}
        idom = {0: 0}
        preds = self.preds()
        changed = True
        while changed:
            changed = False
            for b in rpo[1:]:
                new = None
                for p in preds[b]:
                    if p in idom:
                        if new is None:
                            new = p
                        else:
                            a, c = p, new
                            while a != c:
                                while num[a] > num[c]:
                                    a = idom[a]
                                while num[c] > num[a]:
                                    c = idom[c]
                            new = a
                if new is not None and idom.get(b) != new:
                    idom[b] = new
                    changed = True
        self._dom = idom
        return idom

    def dominates(self, a, b):
        idom = self.dominators()
        if b not in idom:
            return False
        while True:
            if a == b:
                return True
            if b == 0:
                return False
            b = idom[b]

    def return_blocks(self):
        return [b.idx for b in self.blocks if b.term.k == "return" and b.idx in self.reachable()]

    def calls(self):
        """(block idx, Term) for every call terminator in reachable non-cleanup blocks"""
        r = self.reachable()
        return [(b.idx, b.term) for b in self.blocks if b.term.k == "call" and b.idx in r]

    def promoted_fn(self, i):
        """the i-th promoted constant body as a Function-like object"""
        if not hasattr(self, "_promoted_fns"):
            self._promoted_fns = {}
        if i not in self._promoted_fns:
            pj = self.promoted[i]
            j = {"path": "%s::promoted[%d]" % (self.path, i), "def_kind": "Promoted", "sp": self.sp,
                 "body": pj["body"], "blocks": pj["blocks"]}
            self._promoted_fns[i] = Function(j, self.crate)
        return self._promoted_fns[i]

    def local_name(self, l):
        return self.locals[l].get("name")

    def local_ty(self, l):
        return self.locals[l]["ty"]

    def locals_named(self, name):
        return [i for i, l in enumerate(self.locals) if l.get("name") == name]

    def loc(self, sp=None):
        sp = sp or self.sp
        return "%s:%s" % (sp.get("file", "?"), sp.get("line", "?"))

    def dump(self):
        out = ["fn %s  [%s]" % (self.path, self.loc())]
        for i, l in enumerate(self.locals):
            out.append("  let _%d: %s%s" % (i, l["ty"], ("  // " + l["name"]) if l.get("name") else ""))
        for b in self.blocks:
            out.append("  bb%d%s:" % (b.idx, " (cleanup)" if b.cleanup else ""))
            for s in b.stmts:
                out.append("    %s;   // L%s" % (s.fmt(self), s.sp.get("line")))
            out.append("    %s;   // L%s" % (b.term.fmt(self), b.term.sp.get("line")))
        return "\n".join(out)


_PARAM_NAMES = None


def _param_names():
    global _PARAM_NAMES
    if _PARAM_NAMES is None:
        path = os.path.join(os.path.dirname(os.path.dirname(os.path.abspath(__file__))), "tables", "param_names.json")
        try:
            with open(path) as fh:
                _PARAM_NAMES = json.load(fh).get("params", {})
        except Exception:
            _PARAM_NAMES = {}
    return _PARAM_NAMES


class Program:
    def __init__(self, factdir, canonical=True, desugar=False):
        self.factdir = factdir
        self.canonical = canonical
        self.desugared = {}
        self.crates = {}
        self.fns = {}          # path -> Function (lib + bins)
        self.adts = {}
        self.impls = []
        self.traits = {}
        self.inlined = {}
        records = []
        fn_jsons = {}
        for fn in sorted(os.listdir(factdir)):
            if not fn.endswith(".jsonl"):
                continue
            with open(os.path.join(factdir, fn)) as fh:
                crate = None
                for line in fh:
                    j = json.loads(line)
                    if j["kind"] == "crate":
                        crate = j["name"]
                    elif j["kind"] == "fn":
                        fn_jsons[j["path"]] = (j, crate)
                    records.append((j, crate))
        self.renamed = {}
        if canonical:
            # renamed functions / fields carry their reference names again (sa/canon.py)
            from . import canon
            self.renamed = canon.run(records)
            fn_jsons = {j["path"]: (j, c) for j, c in records if j["kind"] == "fn"}
            # functions that are not in the reference inventory (helpers extracted later) are spliced into their callers
            from . import inline
            self.inlined = inline.run(fn_jsons)
            if desugar:
                from . import desugar as _desugar
                self.desugared = _desugar.run(fn_jsons)
                # writing `x.map_err(helper)` out as a match turns the helper into a direct call: splice it in as well
                more = inline.run(fn_jsons)
                for k_, v_ in more.items():
                    self.inlined.setdefault(k_, []).extend(v_)
            # a bool bound once from a pure computation is computed again in front of the reads that other events separate
            # from it (sa/sink.py): a condition hoisted out of a loop is seen where it decides
            from . import sink as _sink
            self.sunk = _sink.run(fn_jsons)
        for j, crate in records:
                if True:
                    k = j["kind"]
                    if k == "crate":
                        self.crates[crate] = j
                    elif k == "fn":
                        f = Function(j, crate)
                        if canonical:
                            # parameter names by position from the reference table: a renamed parameter keeps its role name
                            ref = _param_names().get(f.path)
                            if ref is not None and len(ref) == f.arg_count:
                                for i, nm in enumerate(ref):
                                    if nm and f.locals[i + 1].get("name") not in (None, nm):
                                        f.locals[i + 1] = dict(f.locals[i + 1], name=nm, renamed_from=f.locals[i + 1].get("name"))
                        self.fns[f.path] = f
                    elif k == "adt":
                        j["crate"] = crate
                        self.adts[j["path"]] = j
                    elif k == "impl":
                        j["crate"] = crate
                        self.impls.append(j)
                    elif k == "trait":
                        j["crate"] = crate
                        self.traits[j["path"]] = j
        self._callers = None
        # helpers that were spliced into every one of their callers are accounted for there: drop them from the
        # function table (who-may-call rules would otherwise see their bodies twice, once out of context)
        self.absorbed = {}
        if self.inlined:
            new = {h for hs in self.inlined.values() for h in hs}
            still_called = set()
            for f in self.fns.values():
                if f.path in new:
                    continue
                for b in f.blocks:
                    t = b.term
                    if t.k == "call" and t.callee in new:
                        still_called.add(t.callee)
            # a helper still called from another helper that is itself still called stays too
            changed = True
            while changed:
                changed = False
                for h in list(new):
                    if h in still_called:
                        for b in self.fns[h].blocks:
                            t = b.term
                            if t.k == "call" and t.callee in new and t.callee not in still_called:
                                still_called.add(t.callee)
                                changed = True
            for h in new - still_called:
                self.absorbed[h] = self.fns.pop(h)
        for f_ in list(self.fns.values()) + list(self.absorbed.values()):
            f_.prog = self
        # an `otherwise` edge of a switch on the discriminant of an enum all of whose variants have an arm of their own can
        # never be taken (rustc points it at the wildcard arm of a `matches!`, which would otherwise look reachable two ways)
        try:
            from . import prim as _prim
            for f_ in list(self.fns.values()) + list(self.absorbed.values()):
                for b_ in f_.blocks:
                    t_ = b_.term
                    if t_.k != "switch":
                        continue
                    vals = [v for v, _ in t_.j.get("arms", [])]
                    n_ = _prim._variant_count(f_, b_.idx)
                    if n_ is not None and len(set(vals)) == n_ and all(isinstance(v, int) and 0 <= v < n_ for v in vals):
                        t_.j["otherwise_dead"] = True
        except Exception:
            pass

    def fn(self, path):
        f = self.fns.get(path)
        if f is None:
            raise KeyError(path)
        return f

    def find_fns(self, pred):
        return [f for f in self.fns.values() if pred(f)]

    def impls_of_trait(self, trait_path):
        return [i for i in self.impls if i.get("trait") == trait_path]

    def trait_method_impls(self, trait_path, method):
        """all local bodies implementing trait::method (impl overrides + trait default)"""
        out = []
        for i in self.impls_of_trait(trait_path):
            for it in i["items"]:
                if it["name"] == method and it["def"] in self.fns:
                    out.append(self.fns[it["def"]])
        return out

    def callees_of(self, fn, term):
        """Resolve a call terminator to local Function objects (dyn → every impl)."""
        j = term.j
        res = []
        rk = j.get("resolved_kind")
        if rk == "virtual" or (j.get("callee_trait") and not j.get("resolved")):
            tr = j.get("callee_trait")
            if tr in self.traits:
                name = j.get("callee_name")
                res = self.trait_method_impls(tr, name)
                # trait default body
                for it in self.traits[tr]["items"]:
                    if it["name"] == name and it["def"] in self.fns:
                        res.append(self.fns[it["def"]])
                return res
        r = j.get("resolved") or j.get("callee")
        if r in self.fns:
            res.append(self.fns[r])
        return res

    def closures_of(self, fn):
        owners = {fn.path} | set(h for h in self.inlined.get(fn.path, []) if h in self.absorbed)
        return [f for f in self.fns.values() if f.closure_of in owners]

    def call_graph(self):
        """fn path -> set of callee fn paths (local), closures constructed in a body count as called"""
        if getattr(self, "_cg", None) is not None:
            return self._cg
        cg = defaultdict(set)
        for f in self.fns.values():
            for _, t in f.calls():
                for c in self.callees_of(f, t):
                    cg[f.path].add(c.path)
                # fn items passed as arguments
                for a in t.args:
                    d = a.fn_def()
                    if d and d in self.fns:
                        cg[f.path].add(d)
            for b in f.blocks:
                for s in b.stmts:
                    if s.rv is not None:
                        if s.rv.k == "agg" and s.rv.j.get("ak") in ("closure", "coroutine"):
                            d = s.rv.j["def"]
                            if d in self.fns:
                                cg[f.path].add(d)
                        for o in s.rv.ops:
                            d = o.fn_def()
                            if d and d in self.fns:
                                cg[f.path].add(d)
        self._cg = cg
        return cg

    def reachable_fns(self, roots):
        cg = self.call_graph()
        seen = set()
        st = [r for r in roots]
        while st:
            p = st.pop()
            if p in seen:
                continue
            seen.add(p)
            st.extend(cg.get(p, ()))
        return seen

    def all_calls(self, pred=None):
        """(Function, block idx, Term) for each call (reachable blocks), optional predicate on term.j"""
        out = []
        for f in self.fns.values():
            for b, t in f.calls():
                if pred is None or pred(t):
                    out.append((f, b, t))
        return out
