"""P6 ZONE — forward abstract interpretation of one MIR body in the difference-bound (zone) domain.

Tracked variables: ZERO, user-named integer locals whose address is never taken mutably, and symbolic lengths
len(<local>) of slice / str / Vec typed locals (valid while the local is not reassigned or mutated).
Compiler temporaries are not variables: they are kept in an environment as linear forms `var + c`, comparison
results, checked-arithmetic tuples and range aggregates, and are dropped when a variable they mention changes.
The analysis answers, at a program point, queries of the form  a + ca <= b + cb.
"""
from collections import defaultdict

from . import prim

INF = float("inf")
MAXLEN = (1 << 63) - 1          # every slice/str/Vec length is <= isize::MAX
UNSIGNED = {"usize": 64, "u64": 64, "u32": 32, "u16": 16, "u8": 8, "u128": 128}
SIGNED = {"isize": 64, "i64": 64, "i32": 32, "i16": 16, "i8": 8, "i128": 128}
WIDTH_MAX = {t: (1 << b) - 1 for t, b in UNSIGNED.items()}


class DBM:
    """m[i][j] = upper bound of v_i - v_j"""
    __slots__ = ("n", "m", "bottom")

    def __init__(self, n, m=None):
        self.n = n
        self.bottom = False
        if m is None:
            self.m = [[INF] * n for _ in range(n)]
            for i in range(n):
                self.m[i][i] = 0
        else:
            self.m = m

    def copy(self):
        d = DBM(self.n, [row[:] for row in self.m])
        d.bottom = self.bottom
        return d

    def add(self, i, j, c):
        """v_i - v_j <= c, with incremental closure"""
        if self.bottom:
            return
        m = self.m
        if c >= m[i][j]:
            return
        if m[j][i] + c < 0:
            self.bottom = True
            return
        m[i][j] = c
        n = self.n
        for a in range(n):
            mai = m[a][i]
            if mai == INF:
                continue
            for b in range(n):
                v = mai + c + m[j][b]
                if v < m[a][b]:
                    m[a][b] = v
        for a in range(n):
            if m[a][a] < 0:
                self.bottom = True
                return

    def forget(self, v):
        if self.bottom:
            return
        for k in range(self.n):
            if k != v:
                self.m[v][k] = INF
                self.m[k][v] = INF

    def assign(self, x, y, c):
        """x := y + c  (y may be x)"""
        if self.bottom:
            return
        m = self.m
        if x == y:
            for k in range(self.n):
                if k != x:
                    if m[x][k] != INF:
                        m[x][k] += c
                    if m[k][x] != INF:
                        m[k][x] -= c
            return
        self.forget(x)
        self.add(x, y, c)
        self.add(y, x, -c)

    def shift_range(self, x, lo, hi):
        """x := x + k for some lo <= k <= hi"""
        if self.bottom:
            return
        m = self.m
        for k in range(self.n):
            if k != x:
                if m[x][k] != INF:
                    m[x][k] += hi
                if m[k][x] != INF:
                    m[k][x] -= lo

    def join(self, o):
        if self.bottom:
            return o.copy()
        if o.bottom:
            return self.copy()
        return DBM(self.n, [[max(a, b) for a, b in zip(ra, rb)] for ra, rb in zip(self.m, o.m)])

    def widen(self, o):
        """self = old, o = new"""
        if self.bottom:
            return o.copy()
        if o.bottom:
            return self.copy()
        return DBM(self.n, [[a if b <= a else INF for a, b in zip(ra, rb)] for ra, rb in zip(self.m, o.m)])

    def leq(self, o):
        if self.bottom:
            return True
        if o.bottom:
            return False
        return all(a <= b for ra, rb in zip(self.m, o.m) for a, b in zip(ra, rb))

    def entails(self, i, j, c):
        """v_i - v_j <= c holds in every concrete state"""
        return self.bottom or self.m[i][j] <= c


class Analysis:
    def __init__(self, fn, prog=None, pre=None, track_extra=()):
        self.fn = fn
        self.prog = prog
        self.vars = ["ZERO"]
        self.var_of_local = {}
        self.len_of_local = {}
        self.unsigned = set()
        self.var_ty = {}
        mutb = prim.mut_borrowed(fn)
        ndefs = defaultdict(int)
        for b in fn.blocks:
            for s in b.stmts:
                if s.lhs is not None and s.lhs.is_local():
                    ndefs[s.lhs.local] += 1
            if b.term.k == "call" and b.term.dest is not None and b.term.dest.is_local():
                ndefs[b.term.dest.local] += 1
        for i, l in enumerate(fn.locals):
            ty = l["ty"]
            # user variables, and unnamed integers assigned on several paths (the value of a `match`/`if` expression, the
            # return slot of a spliced helper): their value at the join is only known per path
            if (l.get("name") is not None or (ndefs[i] >= 2 and i != 0)) and (ty in UNSIGNED or ty in SIGNED) and i not in mutb:
                self.var_of_local[i] = len(self.vars)
                self.vars.append("%s(_%d)" % (l.get("name") or "tmp", i))
                self.var_ty[self.var_of_local[i]] = ty
                if ty in UNSIGNED:
                    self.unsigned.add(self.var_of_local[i])
        for i, l in enumerate(fn.locals):
            ty = l["ty"]
            if self._is_seq(ty) and (l.get("name") is not None or 1 <= i <= fn.arg_count):
                self.len_of_local[i] = len(self.vars)
                self.vars.append("len(%s)" % (l.get("name") or "_%d" % i))
        self.n = len(self.vars)
        self.pre = pre or []
        self.in_states = {}
        self.obl_state = {}
        self._assigned_locals = defaultdict(int)
        for b in fn.blocks:
            for s in b.stmts:
                if s.lhs is not None and s.lhs.is_local():
                    self._assigned_locals[s.lhs.local] += 1
            if b.term.k == "call" and b.term.dest is not None and b.term.dest.is_local():
                self._assigned_locals[b.term.dest.local] += 1

    @staticmethod
    def _is_seq(ty):
        t = ty
        while t.startswith("&"):
            t = t[1:].lstrip()
            if t.startswith("mut "):
                t = t[4:]
            if t.startswith("'"):
                t = t.split(" ", 1)[1] if " " in t else t
        return t.startswith("[") or t == "str" or t.startswith("std::vec::Vec<") or t == "std::string::String"

    # ---- initial state ------------------------------------------------------------------------------
    def top(self):
        d = DBM(self.n)
        for v in self.unsigned:
            d.add(0, v, 0)                       # 0 - v <= 0
            d.add(v, 0, WIDTH_MAX[self.var_ty[v]])
        for l, v in self.len_of_local.items():
            d.add(0, v, 0)
            d.add(v, 0, MAXLEN)
        return d

    def initial(self):
        d = self.top()
        for (a, ca, b, cb) in self.pre:           # a + ca <= b + cb over ("local", idx) / ("len", idx) / ("zero",)
            ia, ib = self._sym(a), self._sym(b)
            if ia is not None and ib is not None:
                d.add(ia, ib, cb - ca)
        return d, {}

    def _sym(self, s):
        if s[0] == "zero":
            return 0
        if s[0] == "local":
            return self.var_of_local.get(s[1])
        if s[0] == "len":
            return self.len_of_local.get(s[1])
        return None

    # ---- linear forms -------------------------------------------------------------------------------------
    def lin_of_operand(self, op, env):
        if op.kind == "const":
            v = op.const_value()
            if isinstance(v, bool):
                return None
            if isinstance(v, int):
                return ("lin", 0, v)
            return None
        if op.place is None:
            return None
        pl = op.place
        if pl.is_local():
            if pl.local in self.var_of_local:
                return ("lin", self.var_of_local[pl.local], 0)
            e = env.get(pl.local)
            if e is not None and e[0] == "lin":
                return e
            return None
        # `_t.0` of a checked operation
        if len(pl.proj) == 1 and isinstance(pl.proj[0], dict) and pl.proj[0].get("f") == 0:
            e = env.get(pl.local)
            if e is not None and e[0] == "ovf":
                return e[1] if (e[1] is None or e[1][0] == "lin") else None
        # `(_t as Some).0` of checked_sub/checked_add: on the Some side the payload is the exact result
        if len(pl.proj) == 2 and isinstance(pl.proj[0], dict) and "v" in pl.proj[0] and isinstance(pl.proj[1], dict) and pl.proj[1].get("f") == 0:
            e = env.get(pl.local)
            if e is not None and e[0] == "optlin" and pl.proj[0].get("v") == (e[2] if len(e) > 2 else 1):
                return e[1]
        return None

    def base_local(self, place_or_op, env, hops=6):
        """local whose symbolic length describes the sequence behind an operand/place (through reborrows, derefs, Deref::deref)"""
        pl = place_or_op.place if hasattr(place_or_op, "place") else place_or_op
        for _ in range(hops):
            if pl is None:
                return None
            if pl.local in self.len_of_local and all(e == "*" for e in pl.proj):
                return pl.local
            if any(e != "*" for e in pl.proj):
                return None
            e = env.get(pl.local)
            if e is not None and e[0] == "alias":
                pl = e[1]
                continue
            return None
        return None

    # ---- transfer -----------------------------------------------------------------------------------------------
    def _kill(self, d, env, local):
        """local (re)assigned: drop env entries mentioning its variable / length symbol / alias"""
        vs = set()
        if local in self.var_of_local:
            vs.add(self.var_of_local[local])
        if local in self.len_of_local:
            vs.add(self.len_of_local[local])
        dead = [k for k, e in env.items() if k == local or _mentions(e, vs, local)]
        for k in dead:
            del env[k]

    def _reset_var(self, d, v):
        d.forget(v)
        if v in self.unsigned:
            d.add(0, v, 0)
            d.add(v, 0, WIDTH_MAX[self.var_ty[v]])

    def _reset_len(self, d, v):
        d.forget(v)
        d.add(0, v, 0)
        d.add(v, 0, MAXLEN)

    def stmt(self, s, d, env):
        if s.k != "assign" or s.lhs is None or s.rv is None:
            return
        fn = self.fn
        rv = s.rv
        if not s.lhs.is_local():
            # write through a projection: if the base is a tracked sequence local written through `*` we lose its length
            base = s.lhs.local
            return
        x = s.lhs.local
        val = None
        k = rv.k
        if k == "use" or k == "copy_for_deref":
            op = rv.ops[0] if rv.ops else None
            if op is not None:
                val = self.lin_of_operand(op, env)
                if val is None and op.place is not None and len(op.place.proj) == 1 and isinstance(op.place.proj[0], dict) and op.place.proj[0].get("f") == 0:
                    e0 = env.get(op.place.local)
                    if e0 is not None and e0[0] == "ovf" and e0[1] is not None and e0[1][0] == "sumres":
                        val = e0[1]
                if val is None and op.place is not None and len(op.place.proj) == 3:
                    pj = op.place.proj
                    e3 = env.get(op.place.local)
                    if e3 is not None and e3[0] == "enumopt" and isinstance(pj[0], dict) and pj[0].get("v") == 1 and all(isinstance(x_, dict) and x_.get("f") == 0 for x_ in pj[1:]):
                        val = ("enumidx", e3[1])             # the index `enumerate()` yields with an element of s: below len(s)
                if val is None and op.place is not None:
                    pl = op.place
                    e = env.get(pl.local) if pl.is_local() else None
                    if e is not None and e[0] in ("cmp", "bool", "range", "alias", "ovf", "optlin", "getopt", "iterof", "enumof", "enumopt", "refenum"):
                        val = e
                    elif pl.is_local() and (pl.local in self.len_of_local):
                        val = ("alias", pl)
                    elif len(pl.proj) == 1 and isinstance(pl.proj[0], dict) and pl.proj[0].get("f") == 1:
                        e = env.get(pl.local)
                        if e is not None and e[0] == "ovf":
                            val = ("ovfflag", pl.local)
                if val is None and op.kind == "const" and isinstance(op.const_value(), bool):
                    val = ("bool", op.const_value())
            elif rv.place is not None:
                val = ("alias", rv.place) if self.base_local(rv.place, env) is not None else None
        elif k in ("ref", "rawptr"):
            pe_ = env.get(rv.place.local) if rv.place is not None else None
            if pe_ is not None and pe_[0] == "enumof" and not rv.place.proj:
                val = ("refenum", rv.place.local)            # `&mut iter` of `iter = s.iter().enumerate()`
            elif pe_ is not None and pe_[0] == "refenum" and rv.place.proj == ["*"]:
                val = pe_                                     # reborrow
            elif rv.j.get("bk") != "mut" and self.base_local(rv.place, env) is not None:
                val = ("alias", rv.place)
            elif rv.place is not None and self.base_local(rv.place, env) is not None:
                # &mut of a tracked sequence: its length may change through the reference
                bl = self.base_local(rv.place, env)
                val = ("alias_mut", rv.place)
        elif k == "cast":
            inner = self.lin_of_operand(rv.ops[0], env)
            ck = rv.j.get("ck", "")
            if inner is not None and ck in ("IntToInt",):
                src_ty = self._op_ty(rv.ops[0])
                dst_ty = rv.j.get("ty")
                if src_ty in UNSIGNED and dst_ty in UNSIGNED and UNSIGNED[dst_ty] >= UNSIGNED[src_ty]:
                    val = inner
                elif src_ty in UNSIGNED and dst_ty in SIGNED and SIGNED[dst_ty] > UNSIGNED[src_ty]:
                    val = inner
            elif ck.startswith("PointerCoercion") or ck in ("PtrToPtr", "Subtype", "Transmute"):
                if rv.ops[0].place is not None and self.base_local(rv.ops[0], env) is not None:
                    val = ("alias", rv.ops[0].place)
        elif k == "un":
            op = rv.j["op"]
            if op == "PtrMetadata":
                bl = self.base_local(rv.ops[0], env)
                if bl is not None:
                    val = ("lin", self.len_of_local[bl], 0)
            elif op == "Not":
                o = rv.ops[0]
                e = env.get(o.place.local) if o.place is not None and o.place.is_local() else None
                if e is not None and e[0] == "cmp":
                    val = ("cmp", _NEG[e[1]], e[2], e[3])
                elif e is not None and e[0] == "bool":
                    val = ("bool", not e[1])
        elif k == "bin":
            op = rv.j["op"]
            a = self.lin_of_operand(rv.ops[0], env)
            b = self.lin_of_operand(rv.ops[1], env)
            if op in ("Lt", "Le", "Gt", "Ge", "Eq", "Ne") and a is not None and b is not None:
                val = ("cmp", op, a, b)
            elif op in ("AddWithOverflow", "SubWithOverflow", "Add", "Sub", "AddUnchecked", "SubUnchecked") and a is not None and b is not None:
                res = None
                if op.startswith("Add"):
                    if b[1] == 0:
                        res = ("lin", a[1], a[2] + b[2])
                    elif a[1] == 0:
                        res = ("lin", b[1], a[2] + b[2])
                else:
                    if b[1] == 0:
                        res = ("lin", a[1], a[2] - b[2])
                if res is None and op.startswith("Add") and a[2] == 0 and b[2] == 0:
                    # u + len(c) where `u + len(c) <= len(s)` was recorded when c was collected from s[u..]
                    for e_ in env.values():
                        if e_[0] == "sumle" and {a[1], b[1]} == {e_[1], e_[2]}:
                            res = ("sumres", e_[3], e_[1])
                if op.endswith("WithOverflow"):
                    val = ("ovf", res, op[:3], a, b) if res is not None else None
                else:
                    val = res
        elif k == "agg":
            j = rv.j
            if j.get("ak") == "adt" and str(j.get("adt", "")).startswith("std::ops::Range"):
                forms = [self.lin_of_operand(o, env) for o in rv.ops]
                val = ("range", j["adt"].split("::")[-1], forms)
            elif j.get("ak") == "adt" and (j.get("adt"), j.get("variant")) in (("std::result::Result", "Ok"), ("std::option::Option", "Some")) and len(rv.ops) == 1:
                # Ok(n) / Some(n): the payload read back on that variant is n
                f_ = self.lin_of_operand(rv.ops[0], env)
                if f_ is not None:
                    val = ("optlin", f_, 0 if j.get("variant") == "Ok" else 1)
        elif k == "discr":
            val = None
            # `slice.get(i)` is Some exactly when i < len
            if rv.place is not None and rv.place.is_local():
                e_ = env.get(rv.place.local)
                if e_ is not None and e_[0] == "getopt":
                    val = ("cmp", "Lt", e_[2], ("lin", e_[1], 0))
        # apply
        self._kill(d, env, x)
        if x in self.var_of_local and val is not None and val[0] == "sumres":
            v = self.var_of_local[x]
            self._reset_var(d, v)
            d.add(v, val[1], 0)          # the sum is within the slice's length
            d.add(val[2], v, 0)          # and not below its first summand
            return
        if x in self.var_of_local and val is not None and val[0] == "enumidx":
            v = self.var_of_local[x]
            self._reset_var(d, v)
            d.add(v, val[1], -1)         # index < len(s)
            d.add(0, v, 0)
            return
        if x in self.var_of_local:
            v = self.var_of_local[x]
            if val is not None and val[0] == "lin":
                if val[1] == v:
                    d.assign(v, v, val[2])
                else:
                    d.assign(v, val[1], val[2])
                if v in self.unsigned:
                    d.add(0, v, 0)
            else:
                self._reset_var(d, v)
        else:
            if x in self.len_of_local:
                # a sequence-typed local is (re)bound: its symbolic length is unknown unless it aliases a tracked one
                lv = self.len_of_local[x]
                src = None
                if val is not None and val[0] == "alias":
                    src = self.base_local(val[1], env)
                if src is not None and src != x:
                    d.assign(lv, self.len_of_local[src], 0)
                else:
                    self._reset_len(d, lv)
            elif val is not None:
                env[x] = val

    def _op_ty(self, op):
        if op.kind == "const":
            return op.const.get("ty")
        if op.place is not None and op.place.is_local():
            return self.fn.local_ty(op.place.local)
        return None

    def call(self, t, d, env):
        """effect of a call terminator on the state that flows to its normal successor"""
        fn = self.fn
        name = t.j.get("callee_name")
        callee = (t.callee or "")
        inst = t.j.get("callee_inst") or callee
        dest_val = None
        # lengths
        if name == "len" and t.args and ("slice" in callee or "Vec" in callee or "str" in callee or "String" in callee):
            bl = self.base_local(t.args[0], env)
            if bl is not None:
                dest_val = ("lin", self.len_of_local[bl], 0)
        if name in ("deref", "as_slice", "as_ref", "as_str", "borrow", "as_bytes") and t.args:
            bl = self.base_local(t.args[0], env)
            if bl is not None and t.args[0].place is not None:
                dest_val = ("alias", t.args[0].place)
        if name in ("checked_sub", "checked_add") and len(t.args) == 2 and ("num::" in callee):
            a_ = self.lin_of_operand(t.args[0], env)
            b_ = self.lin_of_operand(t.args[1], env)
            if a_ is not None and b_ is not None and b_[1] == 0:
                dest_val = ("optlin", ("lin", a_[1], a_[2] - b_[2] if name == "checked_sub" else a_[2] + b_[2]))
        if name == "get" and len(t.args) == 2 and ("slice" in callee or "Vec" in callee) and "Range" not in (t.j.get("callee_inst") or ""):
            bl = self.base_local(t.args[0], env)
            f_ = self.lin_of_operand(t.args[1], env)
            if bl is not None and f_ is not None:
                dest_val = ("getopt", self.len_of_local[bl], f_)
        # `for (i, x) in s.iter().enumerate()`: the index handed out with an element is below len(s) (s cannot change while it
        # is borrowed by the iterator; any tracked change of its length drops these facts)
        if name == "iter" and len(t.args) == 1 and ("slice" in callee or "Vec" in callee):
            bl = self.base_local(t.args[0], env)
            if bl is not None:
                dest_val = ("iterof", self.len_of_local[bl])
        if name in ("enumerate", "into_iter", "by_ref") and len(t.args) == 1 and t.args[0].place is not None and t.args[0].place.is_local():
            e_ = env.get(t.args[0].place.local)
            if e_ is not None and e_[0] == "iterof" and name == "enumerate" and "slice::Iter" in inst:
                dest_val = ("enumof", e_[1])
            elif e_ is not None and e_[0] == "enumof" and name == "into_iter" and "Enumerate" in inst:
                dest_val = e_
        if name == "next" and len(t.args) == 1 and t.args[0].place is not None and t.args[0].place.is_local() and "Enumerate<std::slice::Iter" in inst:
            e_ = env.get(t.args[0].place.local)
            if e_ is not None and e_[0] == "refenum":
                e2_ = env.get(e_[1])
                if e2_ is not None and e2_[0] == "enumof":
                    dest_val = ("enumopt", e2_[1])
        if name == "branch" and "Try" in callee and t.args and t.args[0].place is not None and t.args[0].place.is_local():
            e_ = env.get(t.args[0].place.local)
            if e_ is not None and e_[0] == "optlin":
                dest_val = ("optlin", e_[1], 0)        # ControlFlow::Continue carries the success payload
        if name == "is_empty" and t.args:
            bl = self.base_local(t.args[0], env)
            if bl is not None:
                dest_val = ("cmp", "Eq", ("lin", self.len_of_local[bl], 0), ("lin", 0, 0))
        # mutation of sequences through &mut arguments
        for i, a in enumerate(t.args):
            if a.place is None:
                continue
            e = env.get(a.place.local) if a.place.is_local() else None
            target = None
            if e is not None and e[0] == "alias_mut":
                target = self.base_local(e[1], env)
            if target is not None:
                lv = self.len_of_local[target]
                if name == "push" and i == 0 and ("String" in callee or "string" in callee):
                    d.shift_range(lv, 1, 4)       # a char is 1..4 bytes of UTF-8
                    d.add(lv, 0, MAXLEN)
                elif name == "push" and i == 0:
                    d.assign(lv, lv, 1)
                    d.add(lv, 0, MAXLEN)          # a Vec never exceeds isize::MAX elements (push would abort on capacity overflow)
                elif name in ("clear",) and i == 0:
                    d.assign(lv, 0, 0)
                elif name == "resize" and i == 0 and len(t.args) >= 2 and self.lin_of_operand(t.args[1], env) is not None:
                    f = self.lin_of_operand(t.args[1], env)
                    d.assign(lv, f[1], f[2])
                    d.add(0, lv, 0)
                    d.add(lv, 0, MAXLEN)
                elif name in ("push_str", "extend", "extend_from_slice", "append", "extend_from_within", "insert", "insert_str") and i == 0:
                    # the sequence only grows: lower bounds on its length (x - len <= k) stay true, upper bounds go
                    if not d.bottom:
                        for k_ in range(d.n):
                            if k_ != lv:
                                d.m[lv][k_] = INF
                        d.add(lv, 0, MAXLEN)
                    dead = [k for k, ee in env.items() if _mentions(ee, {lv}, None)]
                    for k in dead:
                        del env[k]
                elif name in ("len", "is_empty", "capacity", "as_mut_slice", "deref_mut", "index_mut", "iter_mut", "as_mut", "borrow_mut", "get_mut", "first_mut", "last_mut", "swap", "sort", "reverse", "fill", "copy_from_slice"):
                    pass
                else:
                    self._reset_len(d, lv)
                    dead = [k for k, ee in env.items() if _mentions(ee, {lv}, None)]
                    for k in dead:
                        del env[k]
        sumle = None
        if name == "collect" and t.args and t.dest is not None and t.dest.is_local() and t.dest.local in self.len_of_local:
            sumle = self._collect_bound(t, env)
        if t.dest is not None and t.dest.is_local():
            x = t.dest.local
            self._kill(d, env, x)
            if sumle is not None:
                lvd = self.len_of_local[x]
                self._reset_len(d, lvd)
                if sumle[0] == "const":
                    d.add(lvd, sumle[1], -sumle[2])                       # len(dest) <= len(S) - c
                else:
                    d.add(lvd, sumle[1], 0)                                # len(dest) <= len(S)
                    env[("sumle", x)] = ("sumle", sumle[2], lvd, sumle[1])  # u + len(dest) <= len(S)
                return
            if x in self.var_of_local:
                v = self.var_of_local[x]
                if dest_val is not None and dest_val[0] == "lin":
                    d.assign(v, dest_val[1], dest_val[2])
                else:
                    self._reset_var(d, v)
            elif x in self.len_of_local:
                lv = self.len_of_local[x]
                src = self.base_local(dest_val[1], env) if dest_val is not None and dest_val[0] == "alias" else None
                if src is not None and src != x:
                    d.assign(lv, self.len_of_local[src], 0)
                else:
                    self._reset_len(d, lv)
            elif dest_val is not None:
                env[x] = dest_val
        elif t.dest is not None:
            # call result stored through a projection of a tracked local: unknown
            pass

    _SHORTENING = ("take_while", "map", "filter", "filter_map", "skip_while", "take", "skip", "cloned", "copied", "rev", "enumerate", "map_while", "inspect", "peekable", "by_ref", "step_by", "fuse")

    def _collect_bound(self, t, env):
        """`s[lo..].iter().<adaptors that never add items>.collect()`: the collection is no longer than the slice, so
        lo + len(result) <= len(s). Returns ("const", len-var of s, c) or ("var", len-var of s, var of lo) or None."""
        fn = self.fn
        o = prim.origin_of_operand(fn, t.args[0]).strip()        # named locals stay leaves (the range start is one)
        cur = o
        while cur.k == "call" and cur.a["name"] in self._SHORTENING and cur.kids:
            cur = cur.kids[0].strip()
        if not (cur.k == "call" and cur.a["name"] in ("iter", "into_iter") and cur.kids):
            return None
        src = cur.kids[0].strip()
        lo = None
        idx_term = src.a.get("term") if src.k == "call" and src.a["name"] == "index" else None
        if src.k == "call" and src.a["name"] == "index" and len(src.kids) == 2:
            rng = src.kids[1].strip()
            if rng.k == "agg" and str(rng.a).endswith("RangeFrom") and len(rng.kids) == 1:
                lo = rng.kids[0].strip()
                src = src.kids[0].strip()
            elif rng.k == "agg" and str(rng.a).endswith("RangeFull"):
                src = src.kids[0].strip()
            else:
                return None
        while src.k in ("ref", "deref") and src.kids:
            src = src.kids[0].strip()
        bl = src.a.get("idx") if src.k == "arg" else (src.a.get("local") if src.k == "var" else None)
        if bl is None or bl not in self.len_of_local:
            return None
        lvs = self.len_of_local[bl]
        if lo is None:
            return ("const", lvs, 0)
        if lo.k == "const" and isinstance(lo.a.get("v"), int):
            return ("const", lvs, lo.a["v"])
        if lo.k == "var" and lo.a.get("local") in self.var_of_local:
            return ("var", lvs, self.var_of_local[lo.a["local"]])
        # the provenance tree looks through single-definition named locals; the range's own operand says which variable it is
        it = idx_term
        if it is not None and len(it.args) == 2 and it.args[1].place is not None and it.args[1].place.is_local():
            ds = [x for x in prim.local_defs(fn).get(it.args[1].place.local, []) if x[1] == "assign"]
            if len(ds) == 1 and ds[0][2].rv is not None and ds[0][2].rv.k == "agg" and len(ds[0][2].rv.ops) == 1:
                f_ = self.lin_of_operand(ds[0][2].rv.ops[0], env)
                if f_ is None and ds[0][2].rv.ops[0].place is not None and ds[0][2].rv.ops[0].place.is_local():
                    # a copy of a tracked variable made for the aggregate
                    cl = ds[0][2].rv.ops[0].place.local
                    cds = [x for x in prim.local_defs(fn).get(cl, []) if x[1] == "assign"]
                    if len(cds) == 1 and cds[0][2].rv is not None and cds[0][2].rv.k == "use" and cds[0][2].rv.ops[0].place is not None and cds[0][2].rv.ops[0].place.is_local() and cds[0][2].rv.ops[0].place.local in self.var_of_local:
                        # sound only if the variable was not reassigned since: it must be immutable (one definition)
                        srcl = cds[0][2].rv.ops[0].place.local
                        if len([x for x in prim.local_defs(fn).get(srcl, []) if x[1] != "partial"]) == 1:
                            f_ = ("lin", self.var_of_local[srcl], 0)
                if f_ is not None and f_[2] == 0 and f_[1] != 0:
                    return ("var", lvs, f_[1])
        return None

    def refine(self, d, cmp, truth):
        op, a, b = cmp[1], cmp[2], cmp[3]
        if not truth:
            op = _NEG[op]
        ia, ca, ib, cb = a[1], a[2], b[1], b[2]
        # a + ca  op  b + cb
        if op == "Lt":
            d.add(ia, ib, cb - ca - 1)
        elif op == "Le":
            d.add(ia, ib, cb - ca)
        elif op == "Gt":
            d.add(ib, ia, ca - cb - 1)
        elif op == "Ge":
            d.add(ib, ia, ca - cb)
        elif op == "Eq":
            d.add(ia, ib, cb - ca)
            d.add(ib, ia, ca - cb)
        elif op == "Ne":
            # tighten a non-strict bound that is already known
            if d.m[ia][ib] == cb - ca:
                d.add(ia, ib, cb - ca - 1)
            if d.m[ib][ia] == ca - cb:
                d.add(ib, ia, ca - cb - 1)

    def edges(self, b, d, env):
        """list of (successor, DBM, env) for the normal edges of block b given the state after its statements"""
        fn = self.fn
        t = fn.blocks[b].term
        out = []
        if t.k == "switch":
            dl = t.discr.place.local if (t.discr.place is not None and t.discr.place.is_local()) else None
            e = env.get(dl) if dl is not None else None
            lin = self.lin_of_operand(t.discr, env)
            arms = t.j["arms"]
            for v, tgt in arms:
                d2 = d.copy()
                if e is not None and e[0] == "cmp" and v in (0, 1):
                    self.refine(d2, e, v == 1)
                elif e is not None and e[0] == "bool":
                    if (v == 1) != e[1] and v in (0, 1):
                        d2.bottom = True
                elif lin is not None:
                    self.refine(d2, ("cmp", "Eq", lin, ("lin", 0, v)), True)
                out.append((tgt, d2, dict(env)))
            d2 = d.copy()
            if e is not None and e[0] == "cmp" and len(arms) == 1 and arms[0][0] in (0, 1):
                self.refine(d2, e, arms[0][0] == 0)
            elif e is not None and e[0] == "bool" and len(arms) == 1 and arms[0][0] in (0, 1):
                if (arms[0][0] == 0) != e[1]:
                    d2.bottom = True
            elif lin is not None:
                for v, _ in arms:
                    self.refine(d2, ("cmp", "Ne", lin, ("lin", 0, v)), True)
            out.append((t.j["otherwise"], d2, dict(env)))
            return out
        if t.k == "assert":
            d2 = d.copy()
            m = t.j["msg"]
            from .model import Operand
            cond = Operand(t.j["cond"])
            cl = cond.place.local if (cond.place is not None and cond.place.is_local()) else None
            e = env.get(cl) if cl is not None else None
            if e is not None and e[0] == "cmp":
                self.refine(d2, e, bool(t.j["expected"]))
            if m.get("k") == "overflow" and cond.place is not None and len(cond.place.proj) == 1:
                # the checked result is exact on the success edge; record range knowledge: result within the type
                ee = env.get(cond.place.local)
                if ee is not None and ee[0] == "ovf" and ee[1] is not None and ee[1][0] == "lin":
                    ty = self._op_ty(Operand(m["a"]))
                    res = ee[1]
                    if ty in UNSIGNED:
                        d2.add(0, res[1], res[2])               # 0 <= res
                        d2.add(res[1], 0, WIDTH_MAX[ty] - res[2])
            out.append((t.target, d2, dict(env)))
            return out
        if t.k == "call":
            if t.target is not None:
                d2 = d.copy()
                env2 = dict(env)
                self.call(t, d2, env2)
                out.append((t.target, d2, env2))
            return out
        if t.k == "drop":
            out.append((t.target, d.copy(), dict(env)))
            return out
        for s in fn.succs(b):
            out.append((s, d.copy(), dict(env)))
        return out

    # ---- fixpoint ---------------------------------------------------------------------------------------------------
    def run(self, max_iter=60):
        fn = self.fn
        d0, e0 = self.initial()
        instate = {0: (d0, e0)}
        visits = defaultdict(int)
        # loop heads: targets of retreating edges in a DFS
        heads = self._loop_heads()
        work = [0]
        inwork = {0}
        steps = 0
        while work:
            b = work.pop(0)
            inwork.discard(b)
            steps += 1
            if steps > 40000:
                raise RuntimeError("zone analysis did not converge in %s" % fn.path)
            d, env = instate[b]
            d = d.copy()
            env = dict(env)
            if not d.bottom:
                for s in fn.blocks[b].stmts:
                    self.stmt(s, d, env)
            for succ, d2, env2 in self.edges(b, d, env):
                if d2.bottom:
                    continue
                old = instate.get(succ)
                if old is None:
                    instate[succ] = (d2, env2)
                    changed = True
                else:
                    od, oenv = old
                    nd = od.join(d2)
                    nenv = {k: v for k, v in oenv.items() if env2.get(k) == v}
                    if (b, succ) in heads:
                        # widening only for growth that arrives over a retreating (back) edge; growth arriving over a
                        # forward edge (an upstream loop still iterating) is joined exactly
                        visits[succ] += 1
                        if visits[succ] > 2:
                            nd = od.widen(nd)
                            # type invariants survive widening: a length is within [0, isize::MAX], an unsigned within its width
                            # (and what is tied to a length by a kept difference bound is bounded through it)
                            for lv in self.len_of_local.values():
                                nd.add(0, lv, 0)
                                nd.add(lv, 0, MAXLEN)
                                if not nd.bottom:
                                    for a_ in range(nd.n):
                                        if a_ != lv and nd.m[a_][lv] != INF and nd.m[a_][lv] + MAXLEN < nd.m[a_][0]:
                                            nd.m[a_][0] = nd.m[a_][lv] + MAXLEN
                    changed = not nd.leq(od) or len(nenv) != len(oenv)
                    if changed:
                        instate[succ] = (nd, nenv)
                if changed and succ not in inwork:
                    work.append(succ)
                    inwork.add(succ)
        self.in_states = instate
        return self

    def _loop_heads(self):
        fn = self.fn
        heads = set()
        color = {}
        stack = [(0, iter(fn.succs(0)))]
        color[0] = 1
        while stack:
            b, it = stack[-1]
            adv = False
            for s in it:
                c = color.get(s, 0)
                if c == 0:
                    color[s] = 1
                    stack.append((s, iter(fn.succs(s))))
                    adv = True
                    break
                if c == 1:
                    heads.add((b, s))
            if not adv:
                color[b] = 2
                stack.pop()
        return heads

    # ---- queries --------------------------------------------------------------------------------------------------------
    def state_before_term(self, b):
        """(DBM, env) after the statements of block b (None when the block is unreachable in the abstract semantics)"""
        st = self.in_states.get(b)
        if st is None:
            return None
        d, env = st
        d = d.copy()
        env = dict(env)
        for s in self.fn.blocks[b].stmts:
            self.stmt(s, d, env)
        return d, env

    def le(self, d, a, b, slack=0):
        """a <= b + slack for linear forms a, b"""
        if a is None or b is None:
            return False
        return d.entails(a[1], b[1], b[2] - a[2] + slack)

    def describe(self, d, form):
        if form is None:
            return "?"
        v = self.vars[form[1]]
        lo = -d.m[0][form[1]] if d.m[0][form[1]] != INF else "-inf"
        hi = d.m[form[1]][0] if d.m[form[1]][0] != INF else "+inf"
        s = v if form[2] == 0 else "%s%+d" % (v, form[2])
        if form[1] == 0:
            return str(form[2])
        rel = []
        for j, nm in enumerate(self.vars):
            if j in (0, form[1]):
                continue
            if d.m[form[1]][j] != INF:
                rel.append("%s-%s<=%s" % (v, nm, d.m[form[1]][j]))
        return "%s in [%s, %s]%s" % (s, lo, hi, (" " + ",".join(rel[:3])) if rel else "")


_NEG = {"Lt": "Ge", "Le": "Gt", "Gt": "Le", "Ge": "Lt", "Eq": "Ne", "Ne": "Eq"}


def _mentions(e, vs, local):
    """does env entry e mention any DBM variable in vs, or alias `local`"""
    k = e[0]
    if k == "lin":
        return e[1] in vs
    if k == "cmp":
        return e[2][1] in vs or e[3][1] in vs
    if k == "ovf":
        return (e[1] is not None and (e[1][1] in vs or (e[1][0] == "sumres" and e[1][2] in vs))) or e[3][1] in vs or e[4][1] in vs
    if k == "sumres":
        return e[1] in vs or e[2] in vs
    if k == "range":
        return any(f is not None and f[1] in vs for f in e[2])
    if k in ("alias", "alias_mut"):
        return local is not None and e[1].local == local
    if k == "optlin":
        return e[1][1] in vs
    if k == "getopt":
        return e[1] in vs or e[2][1] in vs
    if k in ("iterof", "enumof", "enumopt", "enumidx"):
        return e[1] in vs
    if k == "refenum":
        return local is not None and e[1] == local
    if k == "sumle":
        return e[1] in vs or e[2] in vs or e[3] in vs
    if k == "ovfflag":
        return False
    return False
