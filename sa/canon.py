"""Canonical names: the rules name functions and struct fields as they are called on the reference tree
(tables/known_fns.json). A later tree may have *renamed* a function or a field without changing behaviour; before any
rule runs, the facts are rewritten so that

  * a function that is missing from the tree while exactly one function that is not in the reference inventory has the
    identical signature (same module/impl first, then anywhere) carries the reference name again — together with its
    closures and every call to it;
  * a struct/variant field whose name differs from the reference while the ADT still has the same number of fields with
    the same types in the same order carries the reference name again (aggregates, place projections, ADT records).

Anything that is not such a one-to-one correspondence is left alone: the rules then fail closed ("anchor not found")."""
import json
import os
import re

HERE = os.path.dirname(os.path.dirname(os.path.abspath(__file__)))
_REF = None


def ref():
    global _REF
    if _REF is None:
        try:
            with open(os.path.join(HERE, "tables", "known_fns.json")) as fh:
                _REF = json.load(fh)
        except Exception:
            _REF = {}
    return _REF


def _strip_generics(ty):
    out = []
    depth = 0
    for ch in ty:
        if ch == "<":
            depth += 1
        elif ch == ">":
            depth -= 1
        elif depth == 0:
            out.append(ch)
    s = "".join(out).strip()
    while s.startswith("&"):
        s = s[1:].lstrip()
        if s.startswith("mut "):
            s = s[4:]
        if s.startswith("'"):
            s = s.split(" ", 1)[1] if " " in s else s
    return s


def _parent(path):
    # strip the last path segment (not inside <...>)
    depth = 0
    for i in range(len(path) - 1, 0, -1):
        ch = path[i]
        if ch == ">":
            depth += 1
        elif ch == "<":
            depth -= 1
        elif depth == 0 and path[i - 1:i + 1] == "::":
            return path[:i - 1]
    return ""


def _norm_sig(sig):
    # lifetimes are numbered by position; keep the shape only
    return re.sub(r"'[a-z_][a-z0-9_]*", "'_", sig or "")


def function_renames(records, crates=("findutils", "find", "xargs")):
    r = ref()
    sigs = r.get("sigs")
    if not sigs:
        return {}
    present = {}
    for j, c in records:
        if j.get("kind") == "fn" and c in crates:
            present[j["path"]] = j
    missing = [p for p in sigs if p not in present and "{closure" not in p and "::tests::" not in p]
    new = [p for p, j in present.items() if p not in sigs and j.get("def_kind") in ("Fn", "AssocFn") and "{closure" not in p and "::tests::" not in p]
    out = {}
    taken = set()
    for m in sorted(missing):
        want = _norm_sig(sigs[m])
        cands = [n for n in new if n not in taken and _norm_sig(present[n].get("sig")) == want]
        same_parent = [n for n in cands if _parent(n) == _parent(m)]
        pick = same_parent if len(same_parent) == 1 else (cands if len(cands) == 1 and not same_parent else [])
        if len(pick) == 1:
            # the reference function must be the only missing one that fits this candidate
            others = [m2 for m2 in missing if m2 != m and _norm_sig(sigs[m2]) == want and (_parent(m2) == _parent(pick[0]) or len(same_parent) != 1)]
            if not others:
                out[pick[0]] = m
                taken.add(pick[0])
    return out


def _rename_strings(x, pairs):
    """deep rewrite of strings naming a renamed function (exact, or followed by generic arguments / a closure)"""
    if isinstance(x, str):
        for new, old in pairs:
            if x == new:
                return old
            if x.startswith(new) and x[len(new):len(new) + 3] in ("::<", "::{"):
                return old + x[len(new):]
        return x
    if isinstance(x, list):
        return [_rename_strings(v, pairs) for v in x]
    if isinstance(x, dict):
        return {k: _rename_strings(v, pairs) for k, v in x.items()}
    return x


def field_renames(records):
    """(adt path, variant idx, field idx) -> reference field name, for ADTs whose layout (field count and types) is that of
    the reference"""
    r = ref()
    adts = r.get("adts")
    if not adts:
        return {}
    out = {}
    for j, c in records:
        if j.get("kind") != "adt" or j["path"] not in adts:
            continue
        rv = adts[j["path"]]
        if len(rv) != len(j.get("variants", [])):
            continue
        for vi, v in enumerate(j["variants"]):
            rf = rv[vi]["fields"]
            cf = v.get("fields", [])
            if len(rf) != len(cf) or any(a["ty"] != b["ty"] for a, b in zip(rf, cf)):
                continue
            for fi, (a, b) in enumerate(zip(rf, cf)):
                if a["name"] != b["name"]:
                    out[(j["path"], vi, fi)] = a["name"]
    return out


def _apply_fields(x, fmap, single_variant):
    if isinstance(x, list):
        return [_apply_fields(v, fmap, single_variant) for v in x]
    if isinstance(x, dict):
        if x.get("k") == "agg" and x.get("ak") == "adt" and isinstance(x.get("fields"), list):
            vi = x.get("vidx", 0)
            x = dict(x)
            x["fields"] = [fmap.get((x["adt"], vi, i), n) for i, n in enumerate(x["fields"])]
        if "l" in x and isinstance(x.get("p"), list) and set(x) <= {"l", "p"}:
            proj = []
            vi = 0
            for e in x["p"]:
                if isinstance(e, dict) and "v" in e:
                    vi = e["v"]
                if isinstance(e, dict) and "f" in e and "of" in e:
                    adt = _strip_generics(e["of"])
                    k = (adt, vi if adt not in single_variant else 0, e["f"])
                    if k in fmap:
                        e = dict(e, n=fmap[k])
                    vi = 0
                proj.append(e)
            return {"l": x["l"], "p": proj}
        return {k: _apply_fields(v, fmap, single_variant) for k, v in x.items()}
    return x


_LT = re.compile(r"(?<=[<,( &])'(?!static\b)(?!_\b)[a-z][a-z0-9_]*\b")


def _anon_lifetimes(x):
    """`impl<'a> MatcherIO<'a>` and `impl MatcherIO<'_>` name the same functions: lifetime parameters in paths and types
    are written `'_` (as the reference inventory has them)"""
    if isinstance(x, str):
        return _LT.sub("'_", x) if "'" in x else x
    if isinstance(x, list):
        return [_anon_lifetimes(v) for v in x]
    if isinstance(x, dict):
        return {k: (_anon_lifetimes(v) if k != "sp" else v) for k, v in x.items()}
    return x


def run(records):
    """records: list of (json, crate), rewritten in place; returns a description of what was renamed"""
    info = {"functions": {}, "fields": {}}
    for i, (j, c) in enumerate(records):
        if j.get("kind") in ("fn", "impl", "trait", "adt") and c in ("findutils", "find", "xargs"):
            records[i] = (_anon_lifetimes(j), c)
    fr = function_renames(records)
    if fr:
        pairs = sorted(fr.items(), key=lambda kv: -len(kv[0]))
        for i, (j, c) in enumerate(records):
            if j.get("kind") in ("fn", "impl", "trait"):
                nj = _rename_strings(j, pairs)
                if j.get("kind") == "fn" and j["path"] in fr:
                    nj["name"] = fr[j["path"]].rsplit("::", 1)[-1]
                    nj["renamed_from"] = j["path"]
                records[i] = (nj, c)
        info["functions"] = fr
    fm = field_renames(records)
    if fm:
        single = {j["path"] for j, c in records if j.get("kind") == "adt" and len(j.get("variants", [])) == 1}
        for i, (j, c) in enumerate(records):
            if j.get("kind") == "fn":
                records[i] = (_apply_fields(j, fm, single), c)
            elif j.get("kind") == "adt":
                nj = json.loads(json.dumps(j))
                for vi, v in enumerate(nj.get("variants", [])):
                    for fi, f in enumerate(v.get("fields", [])):
                        if (nj["path"], vi, fi) in fm:
                            f["name"] = fm[(nj["path"], vi, fi)]
                records[i] = (nj, c)
        info["fields"] = {"%s#%d.%d" % k: v for k, v in fm.items()}
    return info
