"""Analysis primitives over the MIR model: value origins (P7/P12), branch predicates and dominating
guards (P3), must-pass (P2), dispatch tables (P4), event graphs (P5), field writers (P9)."""
import re
from collections import defaultdict

from .model import Operand, Place


# ----------------------------------------------------------------------------------------------
# definitions of locals
# ----------------------------------------------------------------------------------------------

def local_defs(fn):
    """local -> list of (bb, kind, obj): 'assign' (Stmt, whole local), 'call' (Term, dest is the
    whole local), 'partial' (Stmt/Term writing a projection of the local)."""
    if getattr(fn, "_defs", None) is not None:
        return fn._defs
    d = defaultdict(list)
    for b in fn.blocks:
        for s in b.stmts:
            if s.lhs is not None:
                kind = "assign" if s.lhs.is_local() else "partial"
                d[s.lhs.local].append((b.idx, kind, s))
        t = b.term
        if t.k == "call" and t.dest is not None:
            kind = "call" if t.dest.is_local() else "partial"
            d[t.dest.local].append((b.idx, kind, t))
    fn._defs = d
    return d


def mut_borrowed(fn):
    """locals of which a `&mut` (or raw mut) reference to the whole local or a field is taken"""
    if getattr(fn, "_mutb", None) is not None:
        return fn._mutb
    out = set()
    for b in fn.blocks:
        for s in b.stmts:
            if s.rv is not None and s.rv.k in ("ref", "rawptr") and s.rv.place is not None:
                if s.rv.j.get("bk") == "mut" or "Mut" in str(s.rv.j.get("rk", "")):
                    if "*" not in s.rv.place.proj:
                        out.add(s.rv.place.local)
    fn._mutb = out
    return out


class Origin:
    """Expression tree describing where a value comes from."""
    __slots__ = ("k", "a", "kids", "bb")

    def __init__(self, k, a=None, kids=(), bb=None):
        self.k = k          # const arg var call field deref ref cast bin un discr index agg len unknown phi
        self.a = a          # payload (const value / arg idx / callee / field name / op ...)
        self.kids = list(kids)
        self.bb = bb

    def walk(self):
        yield self
        for c in self.kids:
            if isinstance(c, Origin):
                for x in c.walk():
                    yield x

    def callees(self):
        return [o.a["callee"] for o in self.walk() if o.k == "call"]

    def call_nodes(self):
        return [o for o in self.walk() if o.k == "call"]

    def consts(self):
        return [o.a for o in self.walk() if o.k == "const"]

    def fields(self):
        return [o.a for o in self.walk() if o.k == "field"]

    def has_call(self, pred):
        return any(pred(c) for c in self.callees())

    def strip(self):
        """skip value-preserving wrappers (ref/deref/cast-free moves)"""
        o = self
        while o.k in ("ref", "deref") and o.kids:
            o = o.kids[0]
        return o

    def fmt(self):
        k = self.k
        if k == "const":
            return repr(self.a.get("v", self.a.get("ch", self.a.get("text"))))
        if k == "arg":
            return "arg:%s" % self.a["name"]
        if k == "var":
            return "var:%s" % (self.a.get("name") or "_%d" % self.a["local"])
        if k == "call":
            return "%s(%s)" % (short(self.a["callee"]), ", ".join(c.fmt() for c in self.kids))
        if k == "field":
            return "%s.%s" % (self.kids[0].fmt(), self.a)
        if k == "deref":
            return "*%s" % self.kids[0].fmt()
        if k == "ref":
            return "&%s" % self.kids[0].fmt()
        if k == "cast":
            return "(%s as %s)" % (self.kids[0].fmt(), self.a)
        if k == "bin":
            return "%s(%s, %s)" % (self.a, self.kids[0].fmt(), self.kids[1].fmt())
        if k == "un":
            return "%s(%s)" % (self.a, self.kids[0].fmt())
        if k == "discr":
            return "discr(%s)" % self.kids[0].fmt()
        if k == "index":
            return "%s[%s]" % (self.kids[0].fmt(), self.kids[1].fmt())
        if k == "agg":
            return "%s{%s}" % (self.a, ", ".join(c.fmt() for c in self.kids))
        if k == "variant":
            return "(%s as %s)" % (self.kids[0].fmt(), self.a)
        if k == "phi":
            return "phi(%s)" % " | ".join(c.fmt() for c in self.kids)
        return "?%s" % (self.a if self.a is not None else "")


def short(path):
    """last two path segments, for messages"""
    if path is None:
        return "?"
    p = path
    if p.startswith("<") and ">::" in p:
        head, tail = p.rsplit(">::", 1)
        ty = head[1:].split(" as ")[0]
        return "%s::%s" % (ty.split("::")[-1].split("<")[0], tail)
    parts = p.split("::")
    return "::".join(parts[-2:])


_PROMO = re.compile(r"::promoted\[(\d+)\]\}?$")


def origin_of_operand(fn, op, depth=12, _seen=None):
    if op.kind in ("const", "other"):
        txt = op.const.get("text", "") if op.const else ""
        m = _PROMO.search(txt)
        if m and op.const.get("k") in ("unknown", "indirect", "ptr", "scalar", None):
            i = int(m.group(1))
            # the constant belongs to the function named in front of `::promoted[i]` — after a helper was spliced in, that
            # is the helper, not the function whose body is being read
            owner_path = txt[:m.start()].rsplit("::promoted", 1)[0] if "::promoted" in txt[:m.end()] else None
            owner_path = txt.split("::promoted[")[0].split("{")[-1].strip().lstrip("&*").strip() if "::promoted[" in txt else None
            owner = fn
            prog_ = getattr(fn, "prog", None)
            norm_ = lambda s_: strip_generics(s_) if s_ else s_
            if owner_path and norm_(owner_path) != norm_(fn.path) and prog_ is not None:
                owner = prog_.fns.get(owner_path) or getattr(prog_, "absorbed", {}).get(owner_path)
                if owner is None:
                    cands_ = [f_ for p_, f_ in list(prog_.fns.items()) + list(getattr(prog_, "absorbed", {}).items()) if norm_(p_) == norm_(owner_path)]
                    owner = cands_[0] if len(cands_) == 1 else (fn if not fn.j.get("inlined") else None)
            if owner is not None and owner.promoted and i < len(owner.promoted):
                pf = owner.promoted_fn(i)
                return Origin("ref", "promoted", [origin_of_local(pf, 0, depth).strip()])
        return Origin("const", op.const)
    return origin_of_place(fn, op.place, depth, _seen)


def origin_of_place(fn, place, depth=12, _seen=None):
    base = origin_of_local(fn, place.local, depth, _seen)
    o = base
    for e in place.proj:
        if e == "*":
            o = Origin("deref", None, [o])
        elif isinstance(e, dict):
            if "f" in e:
                # payload of a value that was built as a literal of this very variant on the way here
                # (`tmp = Ok(x); .. (tmp as Ok).0`): the operand itself
                if o.k == "variant" and o.kids:
                    inner = o.kids[0].strip()
                    if inner.k == "agg" and str(inner.a).endswith("::%s" % o.a) and e["f"] < len(inner.kids) and not str(inner.a).startswith("closure:"):
                        o = inner.kids[e["f"]]
                        continue
                    # ... or on every way here (`let r = if c {Some(a)} else {Some(b)}; (r as Some).0`): one of the operands
                    if inner.k == "phi" and inner.kids and all(k_.strip().k == "agg" and str(k_.strip().a).endswith("::%s" % o.a) and e["f"] < len(k_.strip().kids) and not str(k_.strip().a).startswith("closure:") for k_ in inner.kids):
                        alts_ = []
                        for k_ in inner.kids:
                            pk_ = k_.strip().kids[e["f"]]
                            if k_.strip().bb is not None:
                                pk_ = Origin(pk_.k, pk_.a, pk_.kids, k_.strip().bb)     # produced where the literal is built
                            alts_.append(pk_)
                        o = Origin("phi", inner.a, alts_, inner.bb)
                        continue
                o = Origin("field", e.get("n") or str(e["f"]), [o])
            elif "idx" in e:
                o = Origin("index", None, [o, origin_of_local(fn, e["idx"], depth - 1, _seen)])
            elif "v" in e:
                vn = e.get("vn", e["v"])
                o, vn = _variant_view(o, vn)
                o = Origin("variant", vn, [o])
            elif "cidx" in e:
                o = Origin("index", None, [o, Origin("const", {"k": "int", "v": e["cidx"], "from_end": e["from_end"]})])
            else:
                o = Origin("unknown", "subslice", [o])
        else:
            o = Origin("unknown", e, [o])
    return o


def _flatten_alts(s0):
    """alternatives of alternatives (a value handed through several joins): one flat list, duplicates once"""
    if not (s0.k == "phi" and any(k_.strip().k == "phi" for k_ in s0.kids)):
        return s0
    flat_, seen_ = [], set()
    st_ = list(s0.kids)
    while st_:
        k_ = st_.pop(0)
        if k_.strip().k == "phi":
            st_ = list(k_.strip().kids) + st_
            continue
        key_ = (k_.fmt(), k_.strip().bb)
        if key_ not in seen_:
            seen_.add(key_)
            flat_.append(k_)
    return Origin("phi", s0.a, flat_, s0.bb)


def _try_arg(k_):
    """(operand, success variant name) when k_ is `Try::branch(operand)` of a Result/Option"""
    s1 = k_.strip()
    if s1.k == "call" and s1.a.get("name") == "branch" and "Try" in str(s1.a.get("callee", "")) and s1.kids:
        inst = str(s1.a.get("inst") or "").lstrip("<")
        if inst.startswith(("std::result::Result", "core::result::Result", "Result<")):
            return s1.kids[0], "Ok"
        if inst.startswith(("std::option::Option", "core::option::Option", "Option<")):
            return s1.kids[0], "Some"
    return None


def _variant_view(o, vn):
    """the value whose variant `vn` is being read, in normal form: `x?` reads the success payload of x itself; of the
    alternatives of a joined value only those that can be that variant remain"""
    for _ in range(3):
        s0 = _flatten_alts(o.strip())
        if s0.k == "phi":
            o = s0
        # `x?`: the Continue payload of Try::branch(x) is the success payload of x itself (also when the branch call was
        # duplicated by threading: every alternative is such a call)
        if str(vn) == "Continue":
            ta = _try_arg(o)
            if ta is not None:
                o, vn = ta
                continue
            if s0.k == "phi" and s0.kids and all(_try_arg(k_) is not None for k_ in s0.kids) and len({_try_arg(k_)[1] for k_ in s0.kids}) == 1:
                vn = _try_arg(s0.kids[0])[1]
                o = Origin("phi", s0.a, [_try_arg(k_)[0] for k_ in s0.kids], s0.bb)
                continue
        if s0.k == "phi":
            # only the definitions that build this variant can reach a read of its payload
            lit = [k for k in s0.kids if k.strip().k == "agg" and "::" in str(k.strip().a)]
            keep = [k for k in s0.kids if not (k.strip().k == "agg" and "::" in str(k.strip().a) and not str(k.strip().a).endswith("::%s" % vn))]
            if str(vn) in ("Ok", "Some"):
                # what `?` hands back is the failure variant: never the value whose success payload is read
                keep = [k for k in keep if not (k.strip().k == "call" and k.strip().a.get("name") == "from_residual")]
            if lit and keep and len(keep) < len(s0.kids):
                o = keep[0] if len(keep) == 1 else Origin("phi", s0.a, keep)
        break
    return o, vn


def renorm(o):
    """re-apply the variant/payload normal forms to a tree that was expanded after it was built (expanding a variable can
    put a `?` or a joined literal under a payload read that was opaque before)"""
    if not isinstance(o, Origin):
        return o
    kids = [renorm(k) for k in o.kids]
    if o.k == "variant" and kids:
        inner, vn = _variant_view(kids[0], o.a)
        return Origin("variant", vn, [inner], o.bb)
    if o.k == "field" and kids and kids[0].k == "variant" and kids[0].kids and str(o.a).isdigit():
        v = kids[0]
        inner = v.kids[0].strip()
        f_ = int(o.a)
        if inner.k == "agg" and str(inner.a).endswith("::%s" % v.a) and f_ < len(inner.kids) and not str(inner.a).startswith("closure:"):
            return inner.kids[f_]
        if inner.k == "phi" and inner.kids and all(k_.strip().k == "agg" and str(k_.strip().a).endswith("::%s" % v.a) and f_ < len(k_.strip().kids) for k_ in inner.kids):
            return Origin("phi", inner.a, [Origin(k_.strip().kids[f_].k, k_.strip().kids[f_].a, k_.strip().kids[f_].kids, k_.strip().bb) for k_ in inner.kids], inner.bb)
    return Origin(o.k, o.a, kids, o.bb)


def origin_of_local(fn, l, depth=12, _seen=None):
    if _seen is None:
        _seen = set()
    name = fn.locals[l].get("name")
    if 1 <= l <= fn.arg_count:
        defs = [d for d in local_defs(fn).get(l, []) if d[1] != "partial"]
        if not defs:
            return Origin("arg", {"idx": l, "name": name or "_%d" % l, "ty": fn.locals[l]["ty"]})
        # a parameter that is also assigned in the body (`mut` parameter): its value is the incoming argument or any of the
        # assignments — opaque
        return Origin("var", {"local": l, "name": name, "ndefs": len(defs) + 1, "is_arg": True})
    if depth <= 0 or l in _seen:
        return Origin("var", {"local": l, "name": name})
    if name is not None and l in mut_borrowed(fn):
        # a user variable whose address is taken mutably may change behind our back
        return Origin("var", {"local": l, "name": name, "mut_borrowed": True})
    defs = [d for d in local_defs(fn).get(l, []) if d[1] != "partial"]
    if len(defs) == 0:
        return Origin("var", {"local": l, "name": name, "undef": True})
    if len(defs) > 1:
        # multiple definitions: a mutable user variable (or a match result). Report as phi of
        # its definitions only for unnamed temporaries with few defs; named variables stay opaque.
        if name is None and len(defs) <= 8:
            seen2 = set(_seen)
            seen2.add(l)
            kids = []
            for d in defs:
                kd = _origin_of_def(fn, d, depth - 1, seen2)
                if kd.bb is None:
                    kd = Origin(kd.k, kd.a, kd.kids, d[0])       # an alternative is produced in the block of its definition
                kids.append(kd)
            return Origin("phi", {"local": l}, kids)
        return Origin("var", {"local": l, "name": name, "ndefs": len(defs)})
    seen2 = set(_seen)
    seen2.add(l)
    if name is not None and defs[0][1] == "assign" and defs[0][2].rv is not None and defs[0][2].rv.k == "use" and defs[0][2].rv.ops and defs[0][2].rv.ops[0].place is not None \
            and defs[0][2].rv.ops[0].place.is_local():
        y = defs[0][2].rv.ops[0].place.local
        if y != l and y > fn.arg_count and fn.locals[y].get("name") is not None and fn.locals[y].get("mut") and len([d for d in local_defs(fn).get(y, []) if d[1] != "partial"]) > 1:
            # `let snapshot = flag;` of a variable that is assigned again later: the binding keeps the value the variable had
            # then, it is not another name for the variable
            return Origin("var", {"local": l, "name": name, "snapshot_of": y})
    return _origin_of_def(fn, defs[0], depth - 1, seen2)


def _origin_of_def(fn, d, depth, seen):
    bb, kind, obj = d
    if kind == "call":
        t = obj
        kids = [origin_of_operand(fn, a, depth, seen) for a in t.args]
        return Origin("call", {"callee": t.callee or "<indirect>", "resolved": t.resolved, "inst": t.j.get("callee_inst"),
                               "self_ty": t.j.get("self_ty"), "name": t.j.get("callee_name"), "term": t, "bb": bb}, kids, bb)
    s = obj
    rv = s.rv
    if rv is None:
        return Origin("unknown", s.k)
    k = rv.k
    if k == "use":
        return origin_of_operand(fn, rv.ops[0], depth, seen)
    if k == "copy_for_deref":
        return origin_of_place(fn, rv.place, depth, seen)
    if k == "ref" or k == "rawptr":
        return Origin("ref", rv.j.get("bk"), [origin_of_place(fn, rv.place, depth, seen)])
    if k == "cast":
        ck = rv.j["ck"]
        inner = origin_of_operand(fn, rv.ops[0], depth, seen)
        if ck.startswith("PointerCoercion") or ck in ("PtrToPtr", "Subtype"):
            return inner        # unsizing etc.: value-preserving
        return Origin("cast", rv.j["ty"], [inner])
    if k == "bin":
        return Origin("bin", rv.j["op"], [origin_of_operand(fn, rv.ops[0], depth, seen), origin_of_operand(fn, rv.ops[1], depth, seen)])
    if k == "un":
        if rv.j["op"] == "PtrMetadata":
            return Origin("len", None, [origin_of_operand(fn, rv.ops[0], depth, seen)])
        return Origin("un", rv.j["op"], [origin_of_operand(fn, rv.ops[0], depth, seen)])
    if k == "discr":
        return Origin("discr", None, [origin_of_place(fn, rv.place, depth, seen)])
    if k == "agg":
        j = rv.j
        nm = j["ak"]
        if nm == "adt":
            nm = "%s::%s" % (j["adt"], j["variant"])
        elif nm in ("closure", "coroutine"):
            nm = "closure:" + j["def"]
        return Origin("agg", nm, [origin_of_operand(fn, o, depth, seen) for o in rv.ops], bb)
    return Origin("unknown", k)


# ----------------------------------------------------------------------------------------------
# branch predicates, dominating guards
# ----------------------------------------------------------------------------------------------

def switch_pred(fn, bb):
    """Origin of the discriminant of a switch terminator"""
    t = fn.blocks[bb].term
    if t.k != "switch":
        return None
    return origin_of_operand(fn, t.discr)


TWO_VARIANT = {"std::option::Option": 2, "std::result::Result": 2, "std::ops::ControlFlow": 2}


def switch_edges(fn, bb):
    """list of (label, target): label is the int value or 'else'. For a discriminant switch over a two-variant enum
    that names only one variant (`if let Some(x) = ..` lowers to [1 -> .., otherwise -> ..]) the otherwise edge is
    labelled with the other variant, so `if let`/`let else` and a two-arm `match` give the same labels."""
    t = fn.blocks[bb].term
    arms = t.j["arms"]
    out = [(v, tgt) for v, tgt in arms]
    other = "else"
    if len(arms) == 1 and arms[0][0] in (0, 1):
        ty = discr_type_of_switch(fn, bb)
        if ty is not None and TWO_VARIANT.get(ty) == 2:
            other = 1 - arms[0][0]
    if not t.j.get("otherwise_dead"):
        out.append((other, t.j["otherwise"]))
    return out


def dead_otherwise_edges(fn):
    """(block, target) of `otherwise` edges that can never be taken: the switch is on the discriminant of an enum all of
    whose variants have an arm of their own (rustc points such an edge at the wildcard arm of a `matches!`, which would
    otherwise look reachable two ways)"""
    c = getattr(fn, "_dead_otherwise", None)
    if c is not None:
        return c
    dead = set()
    for b in fn.reachable():
        t = fn.blocks[b].term
        if t.k != "switch":
            continue
        arms = t.j.get("arms", [])
        vals = [v for v, _ in arms]
        try:
            n = _variant_count(fn, b)
        except Exception:
            n = None
        if n is not None and len(set(vals)) == n and all(isinstance(v, int) and 0 <= v < n for v in vals) and t.j.get("otherwise") not in [tg for _, tg in arms]:
            dead.add((b, t.j["otherwise"]))
        elif n is not None and len(set(vals)) == n and all(isinstance(v, int) and 0 <= v < n for v in vals):
            dead.add((b, None))          # the target is shared with an arm: the edge itself is dead, the block is not
    fn._dead_otherwise = dead
    return dead


def _reach_without_edge(fn, src, dst_set_removed):
    """blocks reachable from entry when the edges src->x for x in dst_set_removed are removed"""
    seen = {0}
    st = [0]
    while st:
        b = st.pop()
        for s in fn.succs(b):
            if b == src and s in dst_set_removed:
                continue

            if s not in seen:
                seen.add(s)
                st.append(s)
    return seen


def dominating_guards(fn, site_bb, _depth=0):
    """Branch outcomes that hold on every path from entry to site_bb.
    Returns list of dicts {bb, labels:[...], pred:Origin, bool: True/False/None}."""
    idom = fn.dominators()
    if site_bb not in idom:
        return []
    out = []
    b = site_bb
    chain = []
    while b != 0:
        b = idom[b]
        chain.append(b)
    for d in chain:
        t = fn.blocks[d].term
        if t.k != "switch":
            continue
        edges = switch_edges(fn, d)
        by_target = defaultdict(list)
        for lab, tgt in edges:
            by_target[tgt].append(lab)
        if len(by_target) < 2:
            continue
        # which single target is forced? remove all other targets' edges and see if site still reachable
        forced = None
        for tgt, labs in by_target.items():
            others = set(by_target) - {tgt}
            # site must be unreachable if edge d->tgt is removed
            r = _reach_without_edge(fn, d, {tgt})
            if site_bb not in r:
                forced = (tgt, labs)
                break
        if forced is None:
            continue
        tgt, labs = forced
        pred = switch_pred(fn, d)
        bval = None
        if t.j.get("discr_ty") == "bool":
            if labs == [0]:
                bval = False
            elif labs == ["else"]:
                bval = True
        out.append({"bb": d, "labels": labs, "pred": pred, "bool": bval, "target": tgt,
                    "all_labels": [l for l, _ in edges]})
        # `matches!(x, P)` / `a && b` style: the switched bool is a temporary assigned only constants; the outcome
        # then implies having passed the block that assigned that constant: inherit that block's guards
        if bval is not None and _depth < 2 and t.discr.place is not None and t.discr.place.is_local():
            root_l = t.discr.place.local
            for _hop in range(4):            # the switched temporary may be a plain copy of the (named) bool
                ds_ = [x for x in local_defs(fn).get(root_l, []) if x[1] != "partial"]
                if len(ds_) == 1 and ds_[0][1] == "assign" and ds_[0][2].rv is not None and ds_[0][2].rv.k == "use" and ds_[0][2].rv.ops and ds_[0][2].rv.ops[0].place is not None and ds_[0][2].rv.ops[0].place.is_local() \
                        and fn.dominates(ds_[0][0], d) and root_l not in mut_borrowed(fn):
                    root_l = ds_[0][2].rv.ops[0].place.local
                elif len(ds_) == 1 and ds_[0][1] == "assign" and ds_[0][2].rv is not None and ds_[0][2].rv.k == "un" and ds_[0][2].rv.j.get("op") == "Not" and ds_[0][2].rv.ops and ds_[0][2].rv.ops[0].place is not None \
                        and ds_[0][2].rv.ops[0].place.is_local() and fn.dominates(ds_[0][0], d) and root_l not in mut_borrowed(fn):
                    root_l = ds_[0][2].rv.ops[0].place.local          # `let ok = !matches!(..)`: the negation of the tested temporary
                    bval = not bval
                else:
                    break
            cs = const_assigns_to(fn, root_l)
            alld = [x for x in local_defs(fn).get(root_l, []) if x[1] != "partial"]
            if cs and len(cs) == len(alld):
                srcs = [bb for bb, v in cs if v is bval]
                if len(srcs) == 1 and srcs[0] != site_bb:
                    for g2 in dominating_guards(fn, srcs[0], _depth + 1):
                        if not any(g2["bb"] == g["bb"] for g in out):
                            out.append(g2)
            elif cs and len(cs) == len(alld) - 1 and not any(v is bval for _, v in cs):
                # `let c = a && b; if c`: c is a constant on the short-circuit path and the last operand otherwise. The
                # outcome that no constant gives means the computed definition ran and had that value.
                nd = [x for x in alld if not any(x[0] == bb_ and x[1] == "assign" and x[2].rv is not None and x[2].rv.k == "use" and x[2].rv.ops and x[2].rv.ops[0].kind == "const" for bb_, _ in cs)]
                nd = [x for x in alld if not (x[1] == "assign" and x[2].rv is not None and x[2].rv.k == "use" and x[2].rv.ops and x[2].rv.ops[0].kind == "const")]
                if len(nd) == 1 and nd[0][0] != site_bb:
                    po = _origin_of_def(fn, nd[0], 10, {root_l})
                    out.append({"bb": nd[0][0], "labels": [], "pred": po, "bool": bval, "target": None, "all_labels": [], "derived": True})
                    for g2 in dominating_guards(fn, nd[0][0], _depth + 1):
                        if not any(g2["bb"] == g["bb"] for g in out):
                            out.append(g2)
    return out


_NEG = {"eq": "ne", "ne": "eq", "lt": "ge", "ge": "lt", "le": "gt", "gt": "le"}
_SWAP = {"eq": "eq", "ne": "ne", "lt": "gt", "gt": "lt", "le": "ge", "ge": "le"}
_BINREL = {"Eq": "eq", "Ne": "ne", "Lt": "lt", "Le": "le", "Gt": "gt", "Ge": "ge"}


def norm_guards(gs):
    """Normal form of branch outcomes, insensitive to how the test was spelled: a list of atoms
    {"rel": eq|ne|lt|le|gt|ge, "a": Origin, "b": Origin, "gd": guard} that are TRUE at the site.
    `a < b` taken false, `a >= b` taken true and `!(a < b)` taken true all give (ge, a, b); `x == y`/`x != y` through
    PartialEq::eq/ne likewise; an integer/enum switch arm gives (eq, scrutinee, const) and its `otherwise` edge one
    (ne, scrutinee, const) atom per arm. Boolean tests that are not comparisons give (eq|ne, pred, True)."""
    out = []
    for gd in gs:
        pr = gd["pred"]
        truth = gd["bool"]
        core = pr.strip()
        while core.k == "un" and core.a == "Not" and core.kids and truth is not None:
            core = core.kids[0].strip()
            truth = not truth
        if truth is not None:
            rel = None
            if core.k == "bin" and core.a in _BINREL:
                rel = _BINREL[core.a]
            elif core.k == "call" and core.a["name"] in ("eq", "ne", "lt", "le", "gt", "ge") and len(core.kids) == 2:
                rel = core.a["name"]
            if rel is not None:
                if not truth:
                    rel = _NEG[rel]
                out.append({"rel": rel, "a": core.kids[0], "b": core.kids[1], "gd": gd})
            else:
                out.append({"rel": "eq" if truth else "ne", "a": core, "b": Origin("const", {"v": True, "k": "bool"}), "gd": gd})
            continue
        # integer / discriminant switch
        labs = gd["labels"]
        # `a.checked_sub(c)` is None exactly when a < c, Some when a >= c (unsigned): the comparison it abbreviates
        if core.k == "discr" and core.kids and labs and len(labs) == 1 and labs[0] in (0, 1):
            inner = core.kids[0].strip()
            if inner.k == "call" and inner.a["name"] == "checked_sub" and len(inner.kids) == 2 and "num::" in str(inner.a.get("callee", "")):
                out.append({"rel": "lt" if labs[0] == 0 else "ge", "a": inner.kids[0], "b": inner.kids[1], "gd": gd})
        if labs and labs != ["else"] and all(isinstance(l, int) for l in labs) and len(labs) == 1:
            out.append({"rel": "eq", "a": core, "b": Origin("const", {"v": labs[0], "k": "int"}), "gd": gd})
        elif labs == ["else"]:
            for l in gd.get("all_labels", []):
                if isinstance(l, int):
                    out.append({"rel": "ne", "a": core, "b": Origin("const", {"v": l, "k": "int"}), "gd": gd})
        elif labs and all(isinstance(l, int) for l in labs):
            # several arms share the target (`A | B | C => ..`): the value is none of the other arms' labels
            for l in gd.get("all_labels", []):
                if isinstance(l, int) and l not in labs:
                    out.append({"rel": "ne", "a": core, "b": Origin("const", {"v": l, "k": "int"}), "gd": gd})
    return out


def edge_atoms(fn, bb):
    """for a switch block: [(target, atoms true on the edge(s) to that target)] in the normal form of norm_guards"""
    t = fn.blocks[bb].term
    if t.k != "switch":
        return []
    edges = switch_edges(fn, bb)
    by_target = defaultdict(list)
    for lab, tgt in edges:
        by_target[tgt].append(lab)
    pred = switch_pred(fn, bb)
    out = []
    for tgt, labs in by_target.items():
        bval = None
        if t.j.get("discr_ty") == "bool":
            if labs == [0]:
                bval = False
            elif labs == ["else"]:
                bval = True
        gd = {"bb": bb, "labels": labs, "pred": pred, "bool": bval, "target": tgt, "all_labels": [l for l, _ in edges]}
        out.append((tgt, norm_guards([gd])))
    return out


def atom_holds(atoms, rel, pa, pb):
    """is the relation `a rel b` among the normalised atoms, for operands selected by the predicates pa / pb (also
    tried with the operands swapped)"""
    for at in atoms:
        if at["rel"] == rel and pa(at["a"]) and pb(at["b"]):
            return at
        if at["rel"] == _SWAP[rel] and pa(at["b"]) and pb(at["a"]):
            return at
    return None


def variant_facts(fn, bb, prog=None):
    """enum facts that hold at block bb, however they were tested: list of (adt path, variant name, holds) from
    discriminant switches (`match`, `if let`, `matches!`) and from `==`/`!=` against a constant variant"""
    out = []
    gs = dominating_guards(fn, bb)
    for at in norm_guards(gs):
        a, b = at["a"].strip(), at["b"].strip()
        for x, y in ((a, b), (b, a)):
            if y.k == "agg" and "::" in str(y.a) and not y.kids and at["rel"] in ("eq", "ne"):
                adt, var = str(y.a).rsplit("::", 1)
                out.append((adt, var, at["rel"] == "eq", x, at["gd"]))
        gd = at["gd"]
        if a.k == "discr" and b.k == "const" and gd["bool"] is None:
            ty = discr_type_of_switch(fn, gd["bb"])
            names = {}
            if prog is not None and ty in prog.adts:
                names = {v["idx"]: v["name"] for v in prog.adts[ty]["variants"]}
            if ty:
                out.append((ty, names.get(b.a["v"], b.a["v"]), at["rel"] == "eq", a.kids[0] if a.kids else a, gd))
    return out


def closure_parent(prog, cf):
    """the function (or closure) whose body builds the closure cf: for a nested closure that is the enclosing closure, not
    the outermost function that `closure_of` names; helpers absorbed by inlining are still found"""
    if not cf.closure_of:
        return None
    absorbed = getattr(prog, "absorbed", {})
    if "::{closure" in cf.path:
        enclosing = cf.path.rsplit("::{closure", 1)[0]
        p_ = prog.fns.get(enclosing) or absorbed.get(enclosing)
        if p_ is not None:
            return p_
    return prog.fns.get(cf.closure_of) or absorbed.get(cf.closure_of)


def resolve_upvars(prog, cf, o):
    """replace reads of a closure's captured variables (`(*_1).N`) in the origin tree `o` by the origin of the captured
    operand at the place where the parent function builds the closure"""
    parent = closure_parent(prog, cf)
    if parent is None:
        return o
    caps = None
    for b in parent.reachable():
        for s in parent.blocks[b].stmts:
            if s.rv is not None and s.rv.k == "agg" and s.rv.j.get("ak") in ("closure", "coroutine") and s.rv.j.get("def") == cf.path:
                caps = [origin_of_operand(parent, op) for op in s.rv.ops]
    if caps is None:
        return o

    def rec(x):
        if x.k == "field" and x.kids:
            base = x.kids[0]
            bs = base.strip()
            if bs.k == "arg" and bs.a.get("idx") == 1:
                try:
                    i = int(x.a)
                except (TypeError, ValueError):
                    i = None
                if i is not None and i < len(caps):
                    return expand_single_def_vars(parent, caps[i])
        return Origin(x.k, x.a, [rec(k) if isinstance(k, Origin) else k for k in x.kids], x.bb)
    return rec(o)


def guards_fmt(gs):
    return "; ".join("%s∈%s" % (g["pred"].fmt(), g["labels"]) if g["bool"] is None else "%s==%s" % (g["pred"].fmt(), g["bool"]) for g in gs)


def must_pass(fn, frm, to_blocks, through_blocks):
    """True iff every normal-edge path from block `frm` to any block in `to_blocks` crosses a block
    of `through_blocks` (frm itself not counted unless listed)."""
    through = set(through_blocks)
    if frm in through:
        return True
    r = fn.reach_from([frm], avoid=through)
    return not (set(to_blocks) & r)


def path_avoiding(fn, frm, to_blocks, through_blocks):
    """a witness path (list of bbs) from frm to one of to_blocks avoiding through_blocks, or None"""
    through = set(through_blocks)
    to = set(to_blocks)
    prev = {frm: None}
    st = [frm]
    while st:
        b = st.pop(0)
        if b in to:
            p = []
            while b is not None:
                p.append(b)
                b = prev[b]
            return list(reversed(p))
        for s in fn.succs(b):
            if s not in prev and s not in through:
                prev[s] = b
                st.append(s)
    return None


# ----------------------------------------------------------------------------------------------
# string dispatch tables (match s { "lit" => ... })
# ----------------------------------------------------------------------------------------------

def is_str_eq(t):
    return t.k == "call" and t.j.get("callee_name") in ("eq", "ne") and (t.j.get("callee_inst") or "").startswith("<str as std::cmp::PartialEq")


def str_tests(fn):
    """every comparison of a str against a literal: list of dicts
    {bb, lit, subject: Origin, true_bb, false_bb}"""
    out = []
    for b, t in fn.calls():
        if not is_str_eq(t) and not (t.j.get("callee_name") in ("eq", "ne") and (any(a.kind == "const" and a.const.get("k") == "str" for a in t.args) or (t.j.get("callee_inst") or "").startswith(("<&str as std::cmp::PartialEq", "<&&str as std::cmp::PartialEq", "<std::string::String as std::cmp::PartialEq")))):
            continue
        lits = [(i, a.const["v"]) for i, a in enumerate(t.args) if a.kind == "const" and a.const.get("k") == "str"]
        if len(lits) != 1:
            # literal may sit behind a temporary (&"lit"): chase
            lits = []
            for i, a in enumerate(t.args):
                o = origin_of_operand(fn, a).strip()
                if o.k == "const" and o.a.get("k") == "str":
                    lits.append((i, o.a["v"]))
            if len(lits) != 1:
                continue
        i, lit = lits[0]
        subj = origin_of_operand(fn, t.args[1 - i]) if len(t.args) == 2 else None
        # the result is switched in the continuation (possibly after moves)
        tb = t.target
        res = follow_bool(fn, tb, t.dest.local)
        if res is None:
            continue
        true_bb, false_bb = res
        if t.j.get("callee_name") == "ne":
            true_bb, false_bb = false_bb, true_bb
        out.append({"bb": b, "lit": lit, "subject": subj, "true_bb": true_bb, "false_bb": false_bb, "term": t})
    return out


def follow_bool(fn, bb, local, maxhops=6):
    """from block bb find the switch on `local` (through gotos / Not / moves). returns (true_bb,false_bb)"""
    cur = bb
    neg = False
    aliases = {local}
    for _ in range(maxhops):
        blk = fn.blocks[cur]
        for s in blk.stmts:
            if s.k == "assign" and s.lhs.is_local() and s.rv is not None:
                if s.rv.k == "use" and s.rv.ops[0].place is not None and s.rv.ops[0].place.is_local() and s.rv.ops[0].place.local in aliases:
                    aliases.add(s.lhs.local)
                elif s.rv.k == "un" and s.rv.j["op"] == "Not" and s.rv.ops[0].place is not None and s.rv.ops[0].place.local in aliases:
                    aliases = {s.lhs.local}
                    neg = not neg
        t = blk.term
        if t.k == "switch" and t.discr.place is not None and t.discr.place.is_local() and t.discr.place.local in aliases:
            f = None
            for v, tgt in t.j["arms"]:
                if v == 0:
                    f = tgt
            tr = t.j["otherwise"]
            if f is None:
                return None
            return (f, tr) if neg else (tr, f)
        if t.k == "goto":
            cur = t.target
            continue
        return None
    return None


def assigned_locals_blocks(fn, local):
    """blocks that fully define `local` (assign or call dest)"""
    return [bb for bb, kind, _ in local_defs(fn).get(local, []) if kind in ("assign", "call")]


def match_join(fn, dest_local):
    """the block every arm of `let dest = match ... {}` flows to after defining dest"""
    cnt = defaultdict(int)
    for bb, kind, obj in local_defs(fn).get(dest_local, []):
        if kind == "assign":
            t = fn.blocks[bb].term
            if t.k == "goto":
                cnt[t.target] += 1
            elif t.k == "drop":
                cnt[t.target] += 1
        elif kind == "call":
            if obj.target is not None:
                cnt[obj.target] += 1
    if not cnt:
        return None
    # arms may pass through drop/goto chains before the join: follow single-successor chains
    def settle(b):
        seen = set()
        while b not in seen:
            seen.add(b)
            blk = fn.blocks[b]
            if not blk.stmts and blk.term.k in ("goto", "drop") and len(fn.preds()[b]) <= 1:
                b = blk.term.target
            else:
                break
        return b
    cnt2 = defaultdict(int)
    for b, c in cnt.items():
        cnt2[settle(b)] += c
    return max(cnt2.items(), key=lambda kv: kv[1])[0]


def region(fn, start, stop_blocks):
    """blocks reachable from start without entering stop_blocks"""
    return fn.reach_from([start], avoid=set(stop_blocks))


# ----------------------------------------------------------------------------------------------
# field writers (P9)
# ----------------------------------------------------------------------------------------------

def field_writes(prog, adt_path, field):
    """all statements/terminators writing <adt>.field: list of (fn, bb, obj, value Origin or None).
    Includes aggregate constructions of the ADT (value of that field)."""
    out = []
    for f in prog.fns.values():
        r = f.reachable()
        for b in f.blocks:
            if b.idx not in r:
                continue
            for s in b.stmts:
                if s.lhs is not None and s.lhs.proj:
                    last = s.lhs.proj[-1]
                    if isinstance(last, dict) and last.get("n") == field and strip_generics(last.get("of", "")).endswith(adt_path):
                        val = origin_of_operand(f, s.rv.ops[0]) if (s.rv is not None and s.rv.k == "use") else (Origin("rv", s.rv.k) if s.rv is not None else None)
                        if s.rv is not None and s.rv.k != "use":
                            val = _origin_of_def(f, (b.idx, "assign", s), 8, set())
                        out.append((f, b.idx, s, val, "assign"))
                if s.rv is not None and s.rv.k == "agg" and s.rv.j.get("ak") == "adt" and s.rv.j.get("adt") == adt_path:
                    names = s.rv.j.get("fields", [])
                    if field in names:
                        i = names.index(field)
                        if i < len(s.rv.ops):
                            out.append((f, b.idx, s, origin_of_operand(f, s.rv.ops[i]), "construct"))
            t = b.term
            if t.k == "call" and t.dest is not None and t.dest.proj:
                last = t.dest.proj[-1]
                if isinstance(last, dict) and last.get("n") == field and strip_generics(last.get("of", "")).endswith(adt_path):
                    out.append((f, b.idx, t, _origin_of_def(f, (b.idx, "call", t), 8, set()), "call"))
    return out


def strip_generics(ty):
    """`&mut a::B<'_>` -> `a::B`"""
    t = ty
    for pre in ("&mut ", "&"):
        while t.startswith(pre):
            t = t[len(pre):]
    out = []
    depth = 0
    for ch in t:
        if ch == "<":
            depth += 1
        elif ch == ">":
            depth -= 1
        elif depth == 0:
            out.append(ch)
    return "".join(out)


def field_reads_in(fn, field):
    """blocks in fn reading a place that ends with .field"""
    out = []
    for b in fn.blocks:
        for s in b.stmts:
            if s.rv is None:
                continue
            pls = [o.place for o in s.rv.ops if o.place is not None]
            if s.rv.place is not None:
                pls.append(s.rv.place)
            for p in pls:
                if field in p.field_names():
                    out.append((b.idx, s))
    return out


# ----------------------------------------------------------------------------------------------
# event graphs (P5)
# ----------------------------------------------------------------------------------------------

_STD_VARIANT = {("std::result::Result", "Ok"): 0, ("std::result::Result", "Err"): 1, ("std::option::Option", "None"): 0, ("std::option::Option", "Some"): 1}


class EventGraph:
    """nodes: 'ENTRY', ('ev', bb, role), ('ret', value-desc); edges: (src, label, dst)"""

    def __init__(self):
        self.edges = set()
        self.nodes = set()

    def add(self, a, lab, b):
        self.nodes.add(a)
        self.nodes.add(b)
        self.edges.add((a, lab, b))

    def canon(self):
        """edge set with block numbers replaced by role#ordinal (ordinal by block order)"""
        roles = defaultdict(list)
        for n in self.nodes:
            if isinstance(n, tuple) and n[0] == "ev":
                roles[n[2]].append(n[1])
        name = {}
        for r, bbs in roles.items():
            for i, bb in enumerate(sorted(set(bbs))):
                name[("ev", bb, r)] = r if len(set(bbs)) == 1 else "%s#%d" % (r, i)
        def nm(n):
            if n == "ENTRY":
                return "ENTRY"
            if n[0] == "ret":
                return "RET(%s)" % n[1]
            return name[n]
        return sorted((nm(a), str(l), nm(b)) for a, l, b in self.edges)


def _mentioned_locals(j, out):
    if isinstance(j, list):
        for x in j:
            _mentioned_locals(x, out)
    elif isinstance(j, dict):
        if "l" in j and isinstance(j["l"], int) and set(j) <= {"l", "p"}:
            out.add(j["l"])
            for e in j.get("p", []):
                if isinstance(e, dict) and isinstance(e.get("idx"), int):
                    out.add(e["idx"])
            return
        for v in j.values():
            _mentioned_locals(v, out)


def mentioned_later(fn):
    """block -> locals that are live on entry to the block: read (named by a statement or terminator other than as the
    plain left-hand side of an assignment / the plain destination of a call) on some path from the block before they are
    assigned afresh. Knowledge about any other local cannot influence what follows."""
    c = getattr(fn, "_mentioned_later", None)
    if c is not None:
        return c
    use, kill = {}, {}
    for b in fn.reachable():
        blk = fn.blocks[b]
        u, k = set(), set()
        def reads(j):
            m = set()
            _mentioned_locals(j, m)
            for x in m:
                if x not in k:
                    u.add(x)
        for st in blk.stmts:
            j = st.j
            if j.get("k") == "assign" and isinstance(j.get("lhs"), dict):
                reads(j.get("rv"))
                lhs = j["lhs"]
                if lhs.get("p"):
                    reads(lhs)
                else:
                    k.add(lhs.get("l"))
            else:
                reads(j)
        tj = blk.term.j
        dest = tj.get("dest") if isinstance(tj, dict) else None
        reads({kk: v for kk, v in tj.items() if kk != "dest"} if isinstance(tj, dict) else tj)
        if isinstance(dest, dict):
            if dest.get("p"):
                reads(dest)
            else:
                k.add(dest.get("l"))
        use[b], kill[b] = u, k
    live = {b: set(u) for b, u in use.items()}
    changed = True
    order = sorted(use, reverse=True)
    while changed:
        changed = False
        for b in order:
            acc = live[b]
            n0 = len(acc)
            for s_ in fn.succs(b):          # (the event graph does not walk unwind edges)
                if s_ in live:
                    acc |= (live[s_] - kill[b])
            if len(acc) != n0:
                changed = True
    fn._mentioned_later = live
    return live


def residual_variant(t):
    """for a call of FromResidual::from_residual: (name, discriminant) of the variant it builds — Err for a Result, None
    for an Option — read off the instantiation"""
    inst = (t.j.get("callee_inst") or "").lstrip("<")
    if inst.startswith("std::result::Result") or inst.startswith("core::result::Result") or inst.startswith("Result<"):
        return ("Result::Err", 1)
    if inst.startswith("std::option::Option") or inst.startswith("core::option::Option") or inst.startswith("Option<"):
        return ("Option::None", 0)
    return None


def event_graph(fn, role_of, ret_local=0, max_states=40000, branch_role=None, stmt_role=None, history=False):
    """Quotient of the CFG on event blocks.
    role_of(term) -> role string or None for call terminators.
    branch_role(fn, bb, origin) -> role for switch terminators that are events themselves (their value labels the out-edges).
    stmt_role(fn, bb, stmt) -> role for statements that are (outcome-less) events.
    Edge labels: the outcome of the *source* event as decided by switches on its result before the
    next event: comma-joined values e.g. '1' / '0' / 'else'; '' when no switch on the result intervenes.
    Return nodes carry the abstract value last assigned to _0 on the path: constant, 'ev:<role>' when
    it is (a copy of) an event result, 'var:<name>', 'agg:<Adt::Variant>' or '?'
    history=True: an event node is identified by its block *and* the branch decisions taken so far (a place tested once
    is not tested again on the same path, so what follows a later event can depend on an earlier outcome; without the
    history those continuations would all hang off one node)."""
    g = EventGraph()
    ev_blocks = {}
    for b, t in fn.calls():
        r = role_of(t)
        if r is not None:
            ev_blocks[b] = r
    br_roles = {}
    if branch_role is not None:
        for b in fn.reachable():
            t = fn.blocks[b].term
            if t.k == "switch":
                r = branch_role(fn, b, switch_pred(fn, b))
                if r is not None:
                    br_roles[b] = r
    def _nk(bb_, decided_):
        return (bb_, repr(sorted(repr(x) for x in decided_))) if history else bb_
    start = ("ENTRY", frozenset(), "", None, frozenset(), frozenset())
    later = mentioned_later(fn)
    work = [(0, start)]
    seen = set()
    n = 0
    while work:
        bb, st = work.pop()
        src, aliases, label, retv, decided, kb = st
        # knowledge about a local that nothing names any more cannot influence the rest of the path
        if kb:
            lv = later.get(bb, ())
            if any(x[0] not in lv for x in kb):
                kb = frozenset(x for x in kb if x[0] in lv)
        key = (bb, src, aliases, label, retv, decided, kb)
        if key in seen:
            continue
        seen.add(key)
        n += 1
        if n > max_states:
            raise RuntimeError("event graph state cap hit in %s" % fn.path)
        blk = fn.blocks[bb]
        aliases = set(aliases)
        for si, s in enumerate(blk.stmts):
            if stmt_role is not None:
                r = stmt_role(fn, bb, s)
                if r is not None:
                    node = ("ev", _nk(bb * 1000 + si, decided), r)
                    g.add(src, label, node)
                    src, label, aliases = node, "", set()
            if s.k != "assign" or s.rv is None:
                continue
            # constant propagation for unnamed bool temporaries (`matches!`, `&&`/`||`, drop flags): makes the
            # following switch on them path-sensitive instead of joining both outcomes
            if s.lhs is not None and s.lhs.is_local():
                ll = s.lhs.local
                if kb and any(x[0] == ll for x in kb):
                    kb = frozenset(x for x in kb if x[0] != ll)
                if fn.local_ty(ll) == "bool" and s.rv.k == "use" and s.rv.ops[0].kind == "const" and isinstance(s.rv.ops[0].const_value(), bool) and ll not in mut_borrowed(fn) and ll != ret_local:
                    kb = kb | {(ll, s.rv.ops[0].const_value())}
                # a bool computed on this path (`let run = pending || !opt;` leaves `run = !opt` on one path): remembered with
                # its defining statement, so that a later `if run` can be read as the test it stands for on this path
                elif fn.local_ty(ll) == "bool" and s.rv.k in ("un", "bin", "use") and not (s.rv.k == "use" and (s.rv.ops[0].kind == "const" or (s.rv.ops[0].place is not None and s.rv.ops[0].place.is_local()))) and ll not in mut_borrowed(fn) and ll != ret_local:
                    kb = kb | {(ll, ("defat", bb, si))}
                # a scalar constant parked in an unnamed temporary (`tmp = 1; _0 = move tmp`): the value that is returned
                elif fn.local_name(ll) is None and s.rv.k == "use" and s.rv.ops[0].kind == "const" and isinstance(s.rv.ops[0].const_value(), (int, str)) and not isinstance(s.rv.ops[0].const_value(), bool) and ll not in mut_borrowed(fn) and ll != ret_local:
                    kb = kb | {(ll, ("cst", s.rv.ops[0].const_value()))}
                # an enum value built from a literal variant: a later `discriminant(x)` on the same path is known
                elif s.rv.k == "agg" and s.rv.j.get("ak") == "adt" and _STD_VARIANT.get((s.rv.j.get("adt"), s.rv.j.get("variant"))) is not None and ll not in mut_borrowed(fn):
                    kb = kb | {(ll, ("variant", _STD_VARIANT[(s.rv.j.get("adt"), s.rv.j.get("variant"))]))}
                elif s.rv.k == "discr" and s.rv.place is not None and s.rv.place.is_local():
                    for kl, kv in kb:
                        if kl == s.rv.place.local and isinstance(kv, tuple) and kv[0] == "variant":
                            kb = kb | {(ll, ("int", kv[1]))}
                elif s.rv.k == "use" and s.rv.ops and s.rv.ops[0].place is not None and not s.rv.ops[0].place.is_local() and len(s.rv.ops[0].place.proj) == 2 \
                        and isinstance(s.rv.ops[0].place.proj[0], dict) and s.rv.ops[0].place.proj[0].get("v") == 1 and isinstance(s.rv.ops[0].place.proj[1], dict) and s.rv.ops[0].place.proj[1].get("f") == 0:
                    # `(cf as Break).0`: the residual of a value known to be a particular failure
                    for kl, kv in kb:
                        if kl == s.rv.ops[0].place.local and isinstance(kv, tuple) and kv[0] == "abs" and kv[1].startswith(("agg:Result::Err", "agg:Option::None")):
                            kb = kb | {(ll, kv)}
                elif s.rv.k == "use" and s.rv.ops and s.rv.ops[0].place is not None and s.rv.ops[0].place.is_local():
                    # moves keep the knowledge
                    for kl, kv in kb:
                        if kl == s.rv.ops[0].place.local and (isinstance(kv, tuple) or (isinstance(kv, bool) and ll not in mut_borrowed(fn) and ll != ret_local)):
                            kb = kb | {(ll, kv)}
                # the literal an unnamed temporary holds (so that `tmp = Err(X); _0 = move tmp` returns Err(X))
                if s.rv.k == "agg" and s.rv.j.get("ak") == "adt" and fn.local_name(ll) is None and ll != ret_local and ll not in mut_borrowed(fn):
                    av = _abs_with_known_payload(fn, s, abstract_value(fn, s, aliases, src, ev_blocks), kb)
                    if av.startswith("agg:"):
                        kb = kb | {(ll, ("abs", av))}
            if decided and s.lhs is not None and not (s.rv.k == "discr"):
                decided = frozenset(x for x in decided if x[0][1] != s.lhs.local)
            if s.lhs.is_local():
                l = s.lhs.local
                rv = s.rv
                src_local = None
                if rv.k in ("use", "copy_for_deref") and (rv.ops and rv.ops[0].place is not None and rv.ops[0].place.is_local()):
                    src_local = rv.ops[0].place.local
                is_alias = src_local is not None and src_local in aliases
                is_discr = rv.k == "discr" and rv.place.is_local() and rv.place.local in aliases
                # payload of the result (`(r as Variant).0`): nested outcomes (Result<Option<..>>) keep being tracked
                if rv.k in ("use", "copy_for_deref") and rv.ops and rv.ops[0].place is not None and rv.ops[0].place.local in aliases:
                    pr = rv.ops[0].place.proj
                    if len(pr) == 2 and isinstance(pr[0], dict) and "v" in pr[0] and isinstance(pr[1], dict) and pr[1].get("f") == 0:
                        is_alias = True
                if l == ret_local:
                    retv = _abs_with_known_payload(fn, s, abstract_value(fn, s, aliases, src, ev_blocks), kb)
                    if retv.startswith("var:") and src_local is not None:
                        for kl, kv in kb:
                            if kl == src_local and isinstance(kv, tuple) and kv[0] == "abs":
                                retv = kv[1]
                            elif kl == src_local and isinstance(kv, bool):
                                retv = "const:%s" % kv
                            elif kl == src_local and isinstance(kv, tuple) and kv[0] == "cst":
                                retv = "const:%s" % (kv[1],)
                if is_alias or is_discr:
                    aliases.add(l)
                    if is_alias and src_local is not None and ("notflip", src_local) in aliases:
                        aliases.add(("notflip", l))
                    else:
                        aliases.discard(("notflip", l))
                    srcl = src_local if is_alias and src_local is not None else (rv.place.local if is_discr else (rv.ops[0].place.local if rv.ops and rv.ops[0].place is not None else None))
                    if srcl is not None and ("flip", srcl) in aliases:
                        aliases.add(("flip", l))
                    else:
                        aliases.discard(("flip", l))
                elif l in aliases:
                    aliases.discard(l)
                    aliases.discard(("flip", l))
                    aliases.discard(("notflip", l))
                if rv.k == "un" and rv.j["op"] == "Not" and rv.ops[0].place is not None and rv.ops[0].place.is_local() and rv.ops[0].place.local in aliases:
                    aliases.add(l)
                    # the negation of the outcome: a later test of it is labelled with the outcome itself (`let ok = !failed();
                    # if ok` takes its true edge when the call returned false)
                    if ("notflip", rv.ops[0].place.local) in aliases:
                        aliases.discard(("notflip", l))
                    else:
                        aliases.add(("notflip", l))
                    if l == ret_local:
                        retv = "not(ev:%s)" % (src[2] if src != "ENTRY" else "?")
        t = blk.term
        if decided and t.k == "call" and t.dest is not None:
            decided = frozenset(x for x in decided if x[0][1] != t.dest.local)
        if kb and t.k == "call" and t.dest is not None:
            kb = frozenset(x for x in kb if x[0] != t.dest.local)
        # `Try::branch(x)` of a value whose variant is known on this path: Continue for the success variant, Break otherwise
        if t.k == "call" and t.dest is not None and t.dest.is_local() and t.j.get("callee_name") == "branch" and "Try" in (t.callee or "") and t.args and t.args[0].place is not None and t.args[0].place.is_local() and t.dest.local not in mut_borrowed(fn):
            inst_b = (t.j.get("callee_inst") or "").lstrip("<")
            fam_b = "R" if inst_b.startswith(("std::result::Result", "core::result::Result")) else ("O" if inst_b.startswith(("std::option::Option", "core::option::Option")) else None)
            add_ = set()
            for kl, kv in kb:
                if kl == t.args[0].place.local and isinstance(kv, tuple):
                    if kv[0] == "variant" and fam_b is not None:
                        success = (fam_b == "R" and kv[1] == 0) or (fam_b == "O" and kv[1] == 1)
                        add_.add((t.dest.local, ("variant", 0 if success else 1)))
                    elif kv[0] == "abs":
                        add_.add((t.dest.local, kv))
            kb = kb | add_
        # the value `?` returns early with is the failure variant of the function's own result type
        if t.k == "call" and t.dest is not None and t.dest.is_local() and t.j.get("callee_name") == "from_residual":
            rv_ = residual_variant(t)
            if rv_ is not None and t.dest.local not in mut_borrowed(fn):
                desc_ = "agg:%s" % rv_[0]
                # the error is handed on unchanged when both sides have the same error type (From is then the identity)
                inst_r = t.j.get("callee_inst") or ""
                tys_ = re.findall(r"Result<[^<>]*(?:<[^<>]*>[^<>]*)*, ([^<>]*(?:<[^<>]*>)?)>", inst_r)
                if len(tys_) >= 2 and tys_[0].strip() == tys_[1].strip() and t.args and t.args[0].place is not None and t.args[0].place.is_local():
                    for kl, kv in kb:
                        if kl == t.args[0].place.local and isinstance(kv, tuple) and kv[0] == "abs" and kv[1].startswith("agg:Result::Err("):
                            desc_ = kv[1]
                kb = kb | {(t.dest.local, ("variant", rv_[1])), (t.dest.local, ("abs", desc_))}
        # a bool returned by a call that is not an event of its own (`opt.is_some()`): a later test of (a copy of) it on this
        # path is a test of that call's result
        if t.k == "call" and bb not in ev_blocks and t.dest is not None and t.dest.is_local() and fn.local_ty(t.dest.local) == "bool" and t.dest.local not in mut_borrowed(fn) and t.dest.local != ret_local:
            kb = kb | {(t.dest.local, ("defat", bb, -1))}
        if bb in ev_blocks:
            node = ("ev", _nk(bb, decided), ev_blocks[bb])
            g.add(src, label, node)
            nal = set()
            if t.dest is not None and t.dest.is_local():
                nal.add(t.dest.local)
                if t.dest.local == ret_local:
                    retv = "ev:%s" % ev_blocks[bb]
            if t.target is not None:
                work.append((t.target, (node, frozenset(nal), "", retv, decided, kb)))
            continue
        if t.k == "return":
            g.add(src, label, ("ret", retv if retv is not None else "?"))
            continue
        if t.k == "switch":
            static_role = bb in br_roles
            if static_role and t.discr.place is not None and t.discr.place.is_local() and kb:
                # `let run = pending || !opt; if run {..}`: a bool bound once (not `mut`) that on this path is a constant or a
                # test of its own is read as that, not as a flag of its own
                kv_ = [kv for kl, kv in kb if kl == t.discr.place.local and (isinstance(kv, bool) or (isinstance(kv, tuple) and kv[0] == "defat"))]
                if kv_:
                    po_ = switch_pred(fn, bb).strip()
                    if po_.k == "var" and po_.a.get("local") is not None and not po_.a.get("is_arg") and po_.a["local"] > fn.arg_count \
                            and not fn.locals[po_.a["local"]].get("mut") and fn.local_ty(po_.a["local"]) == "bool":
                        static_role = False
                        for kv in kv_:
                            if isinstance(kv, tuple):
                                try:
                                    if branch_role(fn, bb, _defat_origin(fn, kv)) is None:
                                        static_role = True          # the test it stands for has no role: the flag keeps its own
                                except Exception:
                                    static_role = True
            if static_role:
                pk = _switch_place_key(fn, bb)
                if pk is not None and pk[0] != "discr":
                    pk = None
                prev = dict(decided).get(pk) if pk is not None else None
                if prev is not None:
                    # the same place was already discriminated on this path (e.g. drop elaboration, a second `matches!`):
                    # stay consistent. What is remembered is a value, or — after an `otherwise` edge — the values it is not.
                    edges_here = switch_edges(fn, bb)
                    labs = [str(lab) for lab, _ in edges_here]
                    if prev.startswith("not:"):
                        excl = set(prev[4:].split("|"))
                        follow = [l_ for l_ in labs if l_ not in excl]           # every edge still possible (its own `else` included)
                    else:
                        follow = [prev] if prev in labs else ["else"]
                    for lab, tgt in edges_here:
                        if str(lab) in follow:
                            work.append((tgt, (src, frozenset(aliases), label, retv, decided, kb)))
                    continue
                node = ("ev", _nk(bb, decided), br_roles[bb])
                g.add(src, label, node)
                edges_here = switch_edges(fn, bb)
                explicit = [str(lab) for lab, _ in edges_here if lab != "else"]
                nvar = _variant_count(fn, bb)
                for lab, tgt in edges_here:
                    val = str(lab)
                    if lab == "else":
                        rest = [str(i) for i in range(nvar) if str(i) not in explicit] if nvar is not None else None
                        val = rest[0] if rest is not None and len(rest) == 1 else "not:" + "|".join(sorted(explicit))
                    nd = decided | {(pk, val)} if pk is not None else decided
                    work.append((tgt, (node, frozenset(), str(lab), retv, nd, kb)))
                continue
            if branch_role is not None and not static_role and t.discr.place is not None and t.discr.place.is_local():
                dyn = None
                for kl, kv in kb:
                    if kl == t.discr.place.local and isinstance(kv, tuple) and kv[0] == "defat":
                        dyn = kv
                if dyn is not None:
                    try:
                        pred_ = _defat_origin(fn, dyn)
                        r_ = branch_role(fn, bb, pred_)
                    except Exception:
                        r_ = None
                    if r_ is not None:
                        node = ("ev", _nk(bb, decided), r_)
                        g.add(src, label, node)
                        for lab, tgt in switch_edges(fn, bb):
                            work.append((tgt, (node, frozenset(), str(lab), retv, decided, kb)))
                        continue
            on_result = t.discr.place is not None and t.discr.place.is_local() and t.discr.place.local in aliases
            known = None
            if t.discr.place is not None and t.discr.place.is_local():
                for kl, kv in kb:
                    if kl == t.discr.place.local:
                        known = kv
            if isinstance(known, tuple) and known[0] == "int" and not on_result:
                edges_ = switch_edges(fn, bb)
                exact = [tgt for lab, tgt in edges_ if lab == known[1]]
                for tgt in (exact or [tgt for lab, tgt in edges_ if lab == "else"]):
                    work.append((tgt, (src, frozenset(aliases), label, retv, decided, kb)))
                continue
            if isinstance(known, bool) and not on_result:
                for lab, tgt in switch_edges(fn, bb):
                    if (lab == 0) == (known is False) and (lab == 0 or lab == "else"):
                        work.append((tgt, (src, frozenset(aliases), label, retv, decided, kb)))
                continue
            flipped = on_result and ("flip", t.discr.place.local) in aliases
            for lab, tgt in switch_edges(fn, bb):
                if on_result:
                    # `opt?` switches on ControlFlow (Continue = 0) where a match on the Option itself has Some = 1:
                    # the label is that of the Option
                    lab_ = (1 - lab) if flipped and lab in (0, 1) else lab
                    if ("notflip", t.discr.place.local) in aliases and fn.local_ty(t.discr.place.local) == "bool":
                        lab_ = "else" if lab == 0 else (0 if lab == "else" else lab)
                    nl = (label + "," if label else "") + str(lab_)
                else:
                    nl = label
                work.append((tgt, (src, frozenset(aliases), nl, retv, decided, kb)))
            continue
        if t.k == "call":
            if t.dest is not None and t.dest.is_local():
                aliases.discard(t.dest.local)
                # `?`: Try::branch(result) keeps the outcome (0 = Continue/Ok, 1 = Break/Err)
                aliases.discard(("flip", t.dest.local))
                if t.j.get("callee_name") == "branch" and t.args and t.args[0].place is not None and t.args[0].place.is_local() and t.args[0].place.local in aliases:
                    aliases.add(t.dest.local)
                    inst_ = (t.j.get("callee_inst") or "").lstrip("<")
                    if inst_.startswith(("std::option::Option", "core::option::Option", "Option<")) != (("flip", t.args[0].place.local) in aliases):
                        aliases.add(("flip", t.dest.local))
                # conversions that keep the outcome: Result<->Option (`ok`, `err`, `ok_or*`) and payload maps
                cn_ = t.j.get("callee_name")
                ci_ = (t.callee or "")
                if cn_ in ("ok", "err", "ok_or", "ok_or_else", "map_err", "map", "copied", "cloned", "as_ref", "as_deref", "as_mut") and t.args and t.args[0].place is not None and t.args[0].place.is_local() \
                        and t.args[0].place.local in aliases and (ci_.startswith("std::result::Result") or ci_.startswith("std::option::Option") or ci_.startswith("core::result::Result") or ci_.startswith("core::option::Option")):
                    aliases.add(t.dest.local)
                    toggles = cn_ in ("ok", "ok_or", "ok_or_else")         # Ok(0) <-> Some(1)
                    if (("flip", t.args[0].place.local) in aliases) != toggles:
                        aliases.add(("flip", t.dest.local))
                if t.dest.local == ret_local:
                    retv = "call:%s" % short(t.callee)
                    rv_ = residual_variant(t) if t.j.get("callee_name") == "from_residual" else None
                    if rv_ is not None:
                        retv = "agg:%s" % rv_[0]          # `?` returns the failure variant: same as `return Err(..)`
                        for kl, kv in kb:
                            if kl == t.dest.local and isinstance(kv, tuple) and kv[0] == "abs" and kv[1].startswith(retv + "("):
                                retv = kv[1]
            if t.target is not None:
                work.append((t.target, (src, frozenset(aliases), label, retv, decided, kb)))
            continue
        for s2 in fn.succs(bb):
            work.append((s2, (src, frozenset(aliases), label, retv, decided, kb)))
    g.n_states = n
    return g


def _defat_origin(fn, kv):
    """the value a ("defat", block, statement index | -1 for the call terminator) fact stands for"""
    if kv[2] == -1:
        return _origin_of_def(fn, (kv[1], "call", fn.blocks[kv[1]].term), 10, set())
    return _origin_of_def(fn, (kv[1], "assign", fn.blocks[kv[1]].stmts[kv[2]]), 10, set())


def _variant_count(fn, bb):
    """number of variants of the enum whose discriminant block bb switches on, when known"""
    ty = discr_type_of_switch(fn, bb)
    if ty is None:
        return None
    if TWO_VARIANT.get(ty) == 2:
        return 2
    prog = getattr(fn, "prog", None)
    adt = prog.adts.get(ty) if prog is not None else None
    if adt is None and prog is not None:
        adt = prog.adts.get(strip_generics(ty))
    return len(adt["variants"]) if adt else None


def _switch_place_key(fn, bb):
    """key of the place whose discriminant / value is switched on in block bb (None when not a plain place)"""
    t = fn.blocks[bb].term
    if t.discr.place is None:
        return None
    if not t.discr.place.is_local():
        return ("place",) + t.discr.place.key()
    l = t.discr.place.local
    for s in reversed(fn.blocks[bb].stmts):
        if s.lhs is not None and s.lhs.is_local() and s.lhs.local == l and s.rv is not None:
            if s.rv.k == "discr":
                return ("discr",) + s.rv.place.key()
            if s.rv.k in ("use", "copy_for_deref") and s.rv.ops and s.rv.ops[0].place is not None:
                return ("place",) + s.rv.ops[0].place.key()
            return None
    if fn.local_name(l) is not None:
        return ("place", l)
    return None


def _is_enum_like(o):
    """aggregate of an enum variant whose operands are not themselves aggregates of records (keeps labels short/stable)"""
    name = str(o.a)
    return not name.endswith("::" + name.split("::")[-2]) if name.count("::") >= 1 else False


def _abs_with_known_payload(fn, s, av, kb):
    """`Err(x)` / `Ok(x)` / `Some(x)` where x is a local known, on this path, to hold a literal enum variant (built in a
    helper that was spliced in, handed over through its return local): the variant is part of the description, as it is
    when the literal is written in place"""
    if av in ("agg:Result::Err", "agg:Result::Ok", "agg:Option::Some") and s.rv is not None and len(s.rv.ops) == 1 and s.rv.ops[0].place is not None and s.rv.ops[0].place.is_local():
        for kl, kv in kb:
            if kl == s.rv.ops[0].place.local and isinstance(kv, tuple) and kv[0] == "abs" and kv[1].startswith("agg:") and "(" not in kv[1]:
                parts = kv[1][4:].split("::")
                if len(parts) == 2 and parts[0] != parts[1]:          # an enum variant, not a struct literal
                    return "%s(%s)" % (av, kv[1][4:])
    return av


def abstract_value(fn, s, aliases, src, ev_blocks):
    rv = s.rv
    if rv.k == "use":
        op = rv.ops[0]
        if op.kind == "const":
            v = op.const_value()
            return "const:%s" % (v if v is not None else op.const.get("text"))
        if op.place is not None and op.place.is_local():
            l = op.place.local
            if l in aliases and src != "ENTRY":
                return "ev:%s" % src[2]
            nm = fn.local_name(l)
            return "var:%s" % (nm or "_%d" % l)
    if rv.k == "un" and rv.j["op"] == "Not":
        op = rv.ops[0]
        if op.place is not None and op.place.is_local() and op.place.local in aliases and src != "ENTRY":
            return "not(ev:%s)" % src[2]
        return "not(?)"
    if rv.k == "agg":
        j = rv.j
        if j.get("ak") == "adt":
            base = "agg:%s::%s" % (j["adt"].split("::")[-1], j["variant"])
            if len(rv.ops) == 1 and j["adt"].split("::")[-1] in ("Result", "Option"):
                inner = origin_of_operand(fn, rv.ops[0], 6).strip()
                if inner.k == "agg" and "::" in str(inner.a) and not str(inner.a).startswith("closure:") and _is_enum_like(inner):
                    parts = str(inner.a).split("::")
                    base += "(%s::%s)" % (parts[-2], parts[-1])
                elif inner.k == "const" and inner.a.get("v") is not None:
                    base += "(%s)" % inner.a.get("v")
            return base
    return "?"


# ----------------------------------------------------------------------------------------------
# misc helpers
# ----------------------------------------------------------------------------------------------

def calls_in_blocks(fn, blocks, pred=None):
    out = []
    for b in sorted(blocks):
        t = fn.blocks[b].term
        if t.k == "call" and (pred is None or pred(t)):
            out.append((b, t))
    return out


def callee_matches(t, *needles):
    c = (t.j.get("callee_inst") or "") + " " + (t.callee or "") + " " + (t.resolved or "")
    return any(n in c for n in needles)


def const_assigns_to(fn, local):
    """constants assigned to a local: list of (bb, value)"""
    out = []
    for bb, kind, obj in local_defs(fn).get(local, []):
        if kind == "assign" and obj.rv is not None and obj.rv.k == "use" and obj.rv.ops[0].kind == "const":
            out.append((bb, obj.rv.ops[0].const_value()))
    return out


def site(fn, bb=None, obj=None):
    sp = None
    if obj is not None:
        sp = getattr(obj, "sp", None)
    elif bb is not None:
        sp = fn.blocks[bb].term.sp
    sp = sp or fn.sp
    return "%s:%s" % (sp.get("file", "?"), sp.get("line", "?"))


def place_type(fn, place):
    """type string of a place when derivable from the facts (local type or last field projection type)"""
    for e in reversed(place.proj):
        if isinstance(e, dict) and "f" in e:
            return e.get("ty")
        if e == "*":
            continue
        if isinstance(e, dict) and "v" in e:
            return None
    t = fn.local_ty(place.local)
    for e in place.proj:
        if e == "*":
            t = strip_ref(t)
    return t


def strip_ref(t):
    for pre in ("&mut ", "&"):
        if t.startswith(pre):
            return t[len(pre):]
    return t


def discr_type_of_switch(fn, bb):
    """ADT type discriminated by the switch terminating block bb (when the discriminant statement is in the block)"""
    t = fn.blocks[bb].term
    if t.k != "switch" or t.discr.place is None or not t.discr.place.is_local():
        return None
    l = t.discr.place.local
    for s in reversed(fn.blocks[bb].stmts):
        if s.lhs is not None and s.lhs.is_local() and s.lhs.local == l and s.rv is not None and s.rv.k == "discr":
            ty = place_type(fn, s.rv.place)
            return strip_generics(strip_ref(ty)) if ty else None
    return None


def named_local_behind(fn, op, hops=4):
    """debug name of the user variable an operand refers to (through refs/moves of temporaries), or None"""
    pl = op.place
    for _ in range(hops):
        if pl is None:
            return None
        nm = fn.local_name(pl.local)
        if nm is not None:
            return nm
        defs = [d for d in local_defs(fn).get(pl.local, []) if d[1] == "assign"]
        if len(defs) != 1:
            return None
        rv = defs[0][2].rv
        if rv.k in ("ref", "rawptr", "copy_for_deref"):
            pl = rv.place
        elif rv.k == "use" and rv.ops[0].place is not None:
            pl = rv.ops[0].place
        else:
            return None
    return None


def user_local_behind(fn, op, hops=6):
    """index of the user (debug-named) local an operand refers to through refs/moves/derefs of temporaries, or None"""
    pl = op.place
    for _ in range(hops):
        if pl is None:
            return None
        if fn.local_name(pl.local) is not None:
            return pl.local
        defs = [d for d in local_defs(fn).get(pl.local, []) if d[1] in ("assign", "call")]
        if len(defs) != 1 or defs[0][1] != "assign":
            return None
        rv = defs[0][2].rv
        if rv.k in ("ref", "rawptr", "copy_for_deref"):
            pl = rv.place
        elif rv.k == "use" and rv.ops[0].place is not None:
            pl = rv.ops[0].place
        else:
            return None
    return None


def simplify(o):
    """resolve `.i` projections of tuple aggregates built in the same body (format_args! argument tuples, match scrutinee tuples)"""
    if not isinstance(o, Origin):
        return o
    kids = [simplify(k) for k in o.kids]
    if o.k == "field" and kids:
        base = kids[0]
        b = base
        while b.k in ("ref", "deref") and b.kids:
            b = b.kids[0]
        if b.k == "agg" and b.a == "tuple" and str(o.a).isdigit() and int(o.a) < len(b.kids):
            return b.kids[int(o.a)]
    return Origin(o.k, o.a, kids, o.bb)


def defs_origins(fn, local, depth=10):
    """origins of every full definition of a (possibly multiply assigned) local"""
    out = []
    for d in local_defs(fn).get(local, []):
        if d[1] == "partial":
            continue
        out.append((d[0], _origin_of_def(fn, d, depth, {local})))
    return out


def move_chain(fn, local, hops=8):
    """locals a value passes through: `local` and, while it has a single definition that is a plain move/copy (or a
    widening cast) of another local, that local, and so on"""
    out = [local]
    while hops > 0:
        hops -= 1
        defs = [d for d in local_defs(fn).get(local, []) if d[1] != "partial"]
        if len(defs) == 1 and defs[0][1] == "assign":
            rv = defs[0][2].rv
            if rv is not None and rv.k in ("use", "copy_for_deref", "cast") and rv.ops and rv.ops[0].place is not None and rv.ops[0].place.is_local():
                local = rv.ops[0].place.local
                if local in out:
                    break
                out.append(local)
                continue
        break
    return out


def alternatives(fn, local, hops=8, depth=10):
    """the definitions (block, origin) that can reach `local`, looking through plain moves/copies of single-definition
    locals: `let v = if c {A} else {B}; f(v)` and `f(if c {A} else {B})` give the same two alternatives"""
    seen = set()
    while hops > 0 and local not in seen:
        seen.add(local)
        hops -= 1
        defs = [d for d in local_defs(fn).get(local, []) if d[1] != "partial"]
        if len(defs) == 1 and defs[0][1] == "assign":
            rv = defs[0][2].rv
            if rv is not None and rv.k in ("use", "copy_for_deref") and rv.ops and rv.ops[0].place is not None and rv.ops[0].place.is_local():
                local = rv.ops[0].place.local
                continue
        break
    return defs_origins(fn, local, depth)


def expand_single_def_vars(fn, o, depth=3):
    """replace `var` leaves that have exactly one full definition (e.g. the desugared `iter` of a for loop, which is
    only opaque because `next(&mut iter)` borrows it mutably) by the origin of that definition"""
    if not isinstance(o, Origin) or depth < 0:
        return o
    if o.k == "var" and o.a.get("local") is not None:
        ds = [d for d in local_defs(fn).get(o.a["local"], []) if d[1] != "partial"]
        if o.a.get("is_arg") or 1 <= o.a["local"] <= fn.arg_count:
            return o            # a reassigned parameter: its first value is the caller's
        if len(ds) == 1:
            return expand_single_def_vars(fn, _origin_of_def(fn, ds[0], 10, {o.a["local"]}), depth - 1)
        if 1 < len(ds) <= 8 and fn.local_name(o.a["local"]) is None and not o.a.get("is_arg") and o.a["local"] not in mut_borrowed(fn):
            # an unnamed temporary with a few definitions that was cut off by the depth limit: its alternatives
            kids = []
            for d_ in ds:
                kd = _origin_of_def(fn, d_, 8, {o.a["local"]})
                if kd.bb is None:
                    kd = Origin(kd.k, kd.a, kd.kids, d_[0])
                kids.append(expand_single_def_vars(fn, kd, depth - 1))
            return Origin("phi", {"local": o.a["local"]}, kids)
        return o
    return Origin(o.k, o.a, [expand_single_def_vars(fn, k, depth) for k in o.kids], o.bb)


def resolve_promoted(fn, o):
    """a reference to a promoted constant of some function (`&CONST`, `&"lit"` hoisted by the compiler) -> the constant
    it evaluates to, when that is a literal; otherwise the node unchanged"""
    if not isinstance(o, Origin):
        return o
    if o.k == "const" and isinstance(o.a, dict) and o.a.get("unevaluated") and isinstance(o.a.get("text"), str) and "::promoted[" in o.a["text"]:
        prog = getattr(fn, "prog", None)
        owner, _, idx = o.a["text"].rpartition("::promoted[")
        try:
            i = int(idx.rstrip("]"))
        except ValueError:
            return o
        of = None
        if prog is not None:
            of = prog.fns.get(owner) or prog.absorbed.get(owner)
        if of is None and fn.path == owner:
            of = fn
        if of is not None and i < len(of.promoted):
            pf = of.promoted_fn(i)
            r = origin_of_local(pf, 0).strip()
            if r.k == "const" and "v" in r.a:
                return r
            if r.k == "agg" and not r.kids and "::" in str(r.a) and not str(r.a).startswith("closure:"):
                return r          # a unit variant (`&Follow::Always` hoisted into a constant)
        return o
    return Origin(o.k, o.a, [resolve_promoted(fn, k) for k in o.kids], o.bb)


def const_eval(o):
    """value of an origin that is arithmetic on integer literals (`1 << 20`), else None"""
    s = o.strip()
    if s.k == "const" and isinstance(s.a.get("v"), int) and not isinstance(s.a.get("v"), bool):
        return s.a["v"]
    if s.k == "field" and str(s.a) == "0" and s.kids:
        return const_eval(s.kids[0])
    if s.k == "cast" and s.kids:
        return const_eval(s.kids[0])
    if s.k == "bin" and len(s.kids) == 2:
        a, b = const_eval(s.kids[0]), const_eval(s.kids[1])
        if a is None or b is None:
            return None
        op = str(s.a).replace("WithOverflow", "").replace("Unchecked", "")
        if op == "Shl" and 0 <= b < 64:
            return a << b
        if op == "Mul":
            return a * b
        if op == "Add":
            return a + b
    return None


def flatten_phi(o):
    """alternatives of a value (phi nodes at the top, through refs/derefs)"""
    s = o
    while s.k in ("ref", "deref") and s.kids:
        s = s.kids[0]
    if s.k == "phi":
        out = []
        for k in s.kids:
            out.extend(flatten_phi(k))
        return out
    return [o]
