"""Model-level inlining of *new* helper functions.

The rules are written against the function inventory of the reference tree (tables/known_fns.json). A function that is
not in that inventory was introduced later — typically a helper extracted from one of the anchor functions. Such a
function is treated as part of its callers: its MIR body is spliced into every direct call site (locals and blocks
renumbered, arguments assigned, `return` turned into an assignment of the destination and a jump to the call's
target). Rules, the zone interpreter and the panic audit then see the same shape as before the extraction, and a
breaking change hidden in a new helper is seen in the context of the anchor that calls it.

Bounds: direct calls only (resolved items), callee body <= MAX_BLOCKS blocks, no recursion (a callee on the inline stack
is left as a call), at most MAX_DEPTH nested levels. What is not inlined stays an ordinary call (rules then fail closed
as before)."""
import copy
import json
import os

MAX_BLOCKS = 800
MAX_DEPTH = 3
HERE = os.path.dirname(os.path.dirname(os.path.abspath(__file__)))
_KNOWN = None


def known_fns():
    global _KNOWN
    if _KNOWN is None:
        p = os.path.join(HERE, "tables", "known_fns.json")
        try:
            with open(p) as fh:
                _KNOWN = set(json.load(fh)["functions"])
        except Exception:
            _KNOWN = None
    return _KNOWN


def _is_place(d):
    return isinstance(d, dict) and "l" in d and isinstance(d["l"], int) and set(d) <= {"l", "p"}


def _remap(j, lm, subst=None):
    """deep copy of a JSON fragment with every place's local (and Index projection locals) renumbered; `subst` maps a
    callee parameter that is a reference to a caller place P: `(*param).rest` becomes `P.rest`"""
    if isinstance(j, list):
        return [_remap(x, lm, subst) for x in j]
    if isinstance(j, dict):
        if _is_place(j):
            proj = [({"idx": lm(e["idx"])} if isinstance(e, dict) and set(e) == {"idx"} else copy.deepcopy(e)) for e in j.get("p", [])]
            if subst and j["l"] in subst and proj and proj[0] == "*":
                base = subst[j["l"]]
                return {"l": base["l"], "p": list(copy.deepcopy(base.get("p", []))) + proj[1:]}
            out = {"l": lm(j["l"])}
            if "p" in j:
                out["p"] = proj
            return out
        return {k: _remap(v, lm, subst) for k, v in j.items()}
    return j


def _ref_params(cj, blk, term, kj):
    """callee parameter -> caller place, for arguments that are a reference created in the calling block (`_t = &mut x;
    f(move _t)`) when the callee never reassigns the parameter"""
    out = {}
    reassigned = set()
    for kb in kj["blocks"]:
        for s in kb["stmts"]:
            lhs = s.get("lhs")
            if isinstance(lhs, dict) and not lhs.get("p") and 1 <= lhs["l"] <= kj["body"]["arg_count"]:
                reassigned.add(lhs["l"])
        d = kb["term"].get("dest")
        if isinstance(d, dict) and not d.get("p") and 1 <= d["l"] <= kj["body"]["arg_count"]:
            reassigned.add(d["l"])
    for i, a in enumerate(term.get("args", [])):
        pl = a.get("move") or a.get("copy")
        if not pl or pl.get("p") or (i + 1) in reassigned:
            continue
        r = _single_ref_def(cj, pl["l"])
        if r is not None:
            out[i + 1] = _resolve_reborrow(cj, r)
    return out


def _single_ref_def(cj, local):
    """the place P when `local` has exactly one definition in the function and it is `local = &[mut] P`"""
    found = []
    for b in cj["blocks"]:
        for s in b["stmts"]:
            lhs = s.get("lhs")
            if isinstance(lhs, dict) and lhs["l"] == local and not lhs.get("p"):
                found.append(s)
        d = b["term"].get("dest")
        if isinstance(d, dict) and d["l"] == local and not d.get("p"):
            found.append(None)
    if len(found) == 1 and found[0] is not None:
        rv = found[0].get("rv", {})
        if rv.get("k") == "ref" and isinstance(rv.get("p"), dict):
            return rv["p"]
    return None


def _resolve_reborrow(cj, place, hops=6):
    """`(*t).rest` with the single definition `t = &[mut] q`  ->  `q.rest`"""
    while hops > 0 and place.get("p") and place["p"][0] == "*":
        hops -= 1
        found = _single_ref_def(cj, place["l"])
        if found is None:
            break
        place = {"l": found["l"], "p": list(found.get("p", [])) + list(place["p"][1:])}
    return place


def _all_places(blk):
    """every place object mentioned by the statements and the terminator of a block (JSON)"""
    out = []

    def walk(j):
        if isinstance(j, list):
            for x in j:
                walk(x)
        elif isinstance(j, dict):
            if _is_place(j):
                out.append(j)
                for e in j.get("p", []) or []:
                    if isinstance(e, dict) and isinstance(e.get("idx"), int):
                        out.append({"l": e["idx"]})
                return
            for k, v in j.items():
                if k != "sp":
                    walk(v)
    walk(blk.get("stmts", []))
    walk(blk.get("term", {}))
    return out


def _remap_term_blocks(t, bm):
    for k in ("target", "unwind", "otherwise"):
        if isinstance(t.get(k), int):
            t[k] = bm(t[k])
    if "arms" in t:
        t["arms"] = [[v, bm(b)] for v, b in t["arms"]]


def _short(path):
    return path.split("::")[-1]


def inline_call(cj, bi, kj):
    """splice callee JSON `kj` into caller JSON `cj` at the call terminating block `bi` (in place)"""
    blk = cj["blocks"][bi]
    term = blk["term"]
    nl0 = len(cj["body"]["locals"])
    nb0 = len(cj["blocks"])
    lm = lambda l: l + nl0
    bm = lambda b: b + nb0
    tag = _short(kj["path"])
    for i, l in enumerate(kj["body"]["locals"]):
        nl = dict(l)
        if nl.get("name"):
            nl["name"] = "%s::%s" % (tag, nl["name"])
        nl["inlined_from"] = kj["path"]
        if 1 <= i <= kj["body"]["arg_count"]:
            nl["inlined_param"] = i
        cj["body"]["locals"].append(nl)
    dest = term["dest"]
    target = term.get("target")
    unwind = term.get("unwind")
    sp = term.get("sp")
    subst = _ref_params(cj, blk, term, kj)
    for kb in kj["blocks"]:
        nb = _remap(kb, lm, subst)
        t = nb["term"]
        _remap_term_blocks(t, bm)
        if t["k"] == "return":
            nb["stmts"].append({"k": "assign", "lhs": copy.deepcopy(dest), "rv": {"k": "use", "a": {"move": {"l": lm(0)}}}, "sp": t.get("sp", sp), "inlined_return": kj["path"]})
            nb["term"] = {"k": "goto", "target": target, "sp": t.get("sp", sp)} if target is not None else {"k": "unreachable", "sp": t.get("sp", sp)}
        elif t["k"] == "resume" and isinstance(unwind, int):
            nb["term"] = {"k": "goto", "target": unwind, "sp": t.get("sp", sp)}
        nb["inlined_from"] = kj["path"]
        nb["inl_chain"] = list(blk.get("inl_chain", [])) + [kj["path"]]
        cj["blocks"].append(nb)
    # a `&mut x` handed to a parameter that the callee only ever dereferences (`fn bump(i: &mut usize) { *i += 1 }`): every
    # `*param` in the spliced body already names x itself, so the reference is dead — it is dropped together with the
    # statements that made it, and x is an ordinary variable of the caller again (not one "whose address is taken")
    dead_params = set()
    for pidx, base in subst.items():
        only_deref = True
        for kb in kj["blocks"]:
            for pl in _all_places(kb):
                if pl["l"] == pidx and not (pl.get("p") and pl["p"][0] == "*"):
                    only_deref = False
        if only_deref:
            dead_params.add(pidx)
    for i, a in enumerate(term["args"]):
        if (i + 1) in dead_params:
            pl = a.get("move") or a.get("copy")
            chain = []
            cur = pl["l"] if isinstance(pl, dict) and not pl.get("p") else None
            for _ in range(4):
                if cur is None:
                    break
                idx = [k for k, s_ in enumerate(blk["stmts"]) if s_.get("k") == "assign" and isinstance(s_.get("lhs"), dict) and s_["lhs"].get("l") == cur and not s_["lhs"].get("p")]
                if len(idx) != 1 or (blk["stmts"][idx[0]].get("rv") or {}).get("k") != "ref":
                    break
                uses = sum(1 for b2 in cj["blocks"] for pl2 in _all_places(b2) if pl2["l"] == cur)
                # its definition, and one use (the call argument or the reborrow that was just queued for removal)
                if uses != 2:
                    break
                chain.append(idx[0])
                src = blk["stmts"][idx[0]]["rv"]["p"]
                cur = src["l"] if src.get("p") == ["*"] else None
            if chain:
                for k in sorted(chain, reverse=True):
                    del blk["stmts"][k]
                continue
        blk["stmts"].append({"k": "assign", "lhs": {"l": lm(i + 1)}, "rv": {"k": "use", "a": copy.deepcopy(a)}, "sp": sp, "inlined_arg": kj["path"]})
    blk["term"] = {"k": "goto", "target": bm(0), "sp": sp, "inlined_call": kj["path"]}
    cj.setdefault("inlined", []).append(kj["path"])


def _is_new_helper(kj, known):
    return kj is not None and kj.get("def_kind") in ("Fn", "AssocFn") and kj["path"] not in known and "::tests::" not in kj["path"] and not kj.get("closure_of")


def _generic_args(ty):
    """top-level generic arguments of `Path<A, B<..>, C>` as strings"""
    i = ty.find("<")
    if i < 0 or not ty.endswith(">"):
        return []
    out, depth, cur = [], 0, ""
    for ch in ty[i + 1:-1]:
        if ch == "<":
            depth += 1
        elif ch == ">":
            depth -= 1
        if ch == "," and depth == 0:
            out.append(cur.strip())
            cur = ""
        else:
            cur += ch
    if cur.strip():
        out.append(cur.strip())
    return out


def explicit_error_conversion(fn_jsons, new, crates):
    """`x?` where the error of x is converted by an `impl From<E1> for E2` of this crate that is *new* (not in the reference
    inventory): std's `from_residual` calls that impl out of sight. The call is written out — `e = From::from(residual
    error); return Err(e)` — so that the conversion is spliced in like any other new helper and the rules see which error
    is returned. Conversions through impls of the reference inventory stay as they are (the rules know them by name)."""
    n = 0
    for p, (cj, c) in fn_jsons.items():
        if c not in crates:
            continue
        for bi in range(len(cj["blocks"])):
            blk = cj["blocks"][bi]
            t = blk["term"]
            if t.get("k") != "call" or t.get("callee_name") != "from_residual" or not isinstance(t.get("target"), int):
                continue
            inst = t.get("callee_inst") or ""
            mark = " as std::ops::FromResidual<"
            if not inst.startswith("<") or mark not in inst or not inst.endswith(">>::from_residual"):
                continue
            a_ty = inst[1:inst.index(mark)]
            b_ty = inst[inst.index(mark) + len(mark):-len(">::from_residual") - 0]
            b_ty = b_ty[:-1] if b_ty.endswith(">") and b_ty.count("<") < b_ty.count(">") else b_ty
            if not a_ty.startswith("std::result::Result<") or not b_ty.startswith("std::result::Result<"):
                continue
            ga, gb = _generic_args(a_ty), _generic_args(b_ty)
            if len(ga) != 2 or len(gb) != 2 or ga[1] == gb[1]:
                continue
            e2, e1 = ga[1], gb[1]
            impl = "<%s as std::convert::From<%s>>::from" % (e2, e1)
            if impl not in new or len(t.get("args", [])) != 1:
                continue
            arg = t["args"][0]
            pl = arg.get("move") or arg.get("copy")
            if not _is_place(pl) or pl.get("p"):
                continue
            sp = t.get("sp")
            locs = cj["body"]["locals"]
            l_e1 = len(locs)
            locs.append({"ty": e1, "mut": True})
            l_e2 = len(locs)
            locs.append({"ty": e2, "mut": True})
            blk["stmts"].append({"k": "assign", "lhs": {"l": l_e1}, "rv": {"k": "use", "a": {"move": {"l": pl["l"], "p": [{"v": 1, "vn": "Err"}, {"f": 0, "n": "0", "of": b_ty, "ty": e1}]}}}, "sp": sp})
            cont = len(cj["blocks"])
            cj["blocks"].append({"stmts": [{"k": "assign", "lhs": copy.deepcopy(t["dest"]), "rv": {"k": "agg", "ak": "adt", "adt": "std::result::Result", "variant": "Err", "vidx": 1, "fields": ["0"], "ops": [{"move": {"l": l_e2}}]}, "sp": sp}],
                                 "term": {"k": "goto", "target": t["target"], "sp": sp}, "residual_conversion": impl})
            blk["term"] = {"k": "call", "src": "Normal", "callee": impl, "callee_inst": impl, "callee_name": "from", "callee_trait": "std::convert::From", "self_ty": e2,
                           "resolved": impl, "resolved_kind": "item", "args": [{"move": {"l": l_e1}}], "dest": {"l": l_e2}, "target": cont, "unwind": t.get("unwind"), "sp": sp,
                           "written_out": "from_residual"}
            n += 1
    return n


def run(fn_jsons, crates=("findutils", "find", "xargs")):
    """fn_jsons: {path: (json, crate)}; inlines new helpers in place; returns {caller: [inlined callee, ...]}"""
    known = known_fns()
    if known is None:
        return {}
    new = {p for p, (j, c) in fn_jsons.items() if c in crates and _is_new_helper(j, known)}
    if not new:
        return {}
    explicit_error_conversion(fn_jsons, new, crates)
    # pristine copies of the callees (a callee body is spliced as it was written, nested helpers are handled by the
    # passes below with a stack check)
    pristine = {p: copy.deepcopy(fn_jsons[p][0]) for p in new}
    done = {}
    for _ in range(1):
        changed = False
        for p, (cj, c) in fn_jsons.items():
            if c not in crates:
                continue
            bi = 0
            while bi < len(cj["blocks"]):
                t = cj["blocks"][bi]["term"]
                if t.get("k") == "call":
                    callee = t.get("callee")
                    chain = cj["blocks"][bi].get("inl_chain", [])
                    if callee in new and callee != p and callee not in chain and len(chain) < MAX_DEPTH and t.get("resolved_kind", "item") in ("item", None, "generic"):
                        kj = pristine[callee]
                        if len(kj["blocks"]) <= MAX_BLOCKS and len(t.get("args", [])) == kj["body"]["arg_count"] and len(cj["blocks"]) < 20000:
                            inline_call(cj, bi, kj)
                            done.setdefault(p, []).append(callee)
                            changed = True
                bi += 1
        if not changed:
            break
    # the outcomes of a spliced helper meet in its return block: keep them apart up to the caller's test of the result
    from . import thread
    for p in done:
        try:
            thread.run_function(fn_jsons[p][0])
            thread.fold_known_switches(fn_jsons[p][0])
        except Exception:
            pass
    return done

